#!/usr/bin/env python3
"""Writes the detection matrix of DESIGN.md section 7 from selftest-results.json."""
import json, os, re
HERE = os.path.dirname(os.path.abspath(__file__))
res = json.load(open(os.path.join(HERE, "selftest-results.json")))
NOTES = json.load(open(os.path.join(HERE, "mutants", "NOTES.json")))

def first_kind(r):
    for p, v in r.get("checks", {}).items():
        if v.get("caught") and v.get("kinds"):
            return v["kinds"][0].replace("kind=", "")
    return ""

rows = []
for r in res:
    name = r["name"]
    origin = "sub-agent" if name.startswith("seeded-") else ("reverse of a fix" if name.startswith("revert-") else "hand-made")
    what = NOTES.get(name, "")
    caught = ", ".join(r.get("caught_by", [])) or "**missed**"
    tests = r.get("existing_tests_pass")
    tests_s = "" if tests is None else ("pass" if tests else "FAIL")
    rows.append("| `%s` | %s | %s | %s | %s | %s |" % (name, origin, what, caught, first_kind(r), tests_s))
table = "| change | origin | what it breaks / what it needs to manifest | caught by (quick tier) | first violation kind | repo tests on the mutant |\n|---|---|---|---|---|---|\n" + "\n".join(rows)
by_check = {}
for r in res:
    for pch in r.get("caught_by", []):
        by_check.setdefault(pch, []).append(r["name"])
inverse = "\n".join("* **%s** catches %d: %s" % (k, len(v), ", ".join("`%s`" % x for x in v)) for k, v in sorted(by_check.items()))
table = table + "\n\nBy check:\n\n" + inverse
n = len(res); c = sum(1 for r in res if r.get("caught_by"))
summary = "%d breaking changes, %d caught by at least one expected check, %d missed." % (n, c, n - c)
p = os.path.join(HERE, "DESIGN.md")
s = open(p).read()
block = "<!-- MATRIX:BEGIN -->\n" + summary + "\n\n" + table + "\n<!-- MATRIX:END -->"
if "<!-- MATRIX:BEGIN -->" in s:
    s = re.sub(r"<!-- MATRIX:BEGIN -->.*?<!-- MATRIX:END -->", lambda m: block, s, flags=re.S)
else:
    s = s.replace("SENSITIVITY_TABLE_PLACEHOLDER", block)
open(p, "w").write(s)
print(summary)
