#!/usr/bin/env python3
"""Regenerates MANIFEST.json from legs.py (claimed properties) and properties.jsonl."""
import json
import os

HERE = os.path.dirname(os.path.abspath(__file__))
import sys
sys.path.insert(0, HERE)
from legs import PROPS, MANIFEST_TEXT  # noqa: E402

ids = [json.loads(l)["id"] for l in open(os.path.join(HERE, "properties.jsonl")) if l.strip()]
checks, na = [], []
for pid in ids:
    if pid in PROPS:
        t = MANIFEST_TEXT[pid]
        checks.append({
            "property_id": pid,
            "quick_cmd": "./check %s quick" % pid,
            "thorough_cmd": "./check %s thorough" % pid,
            "evidence_file": "/verif/evidence/%s.json" % pid,
            "replay_cmd_template": "./check --replay {path}",
            "engine": "rvmon",
            "level_claimed": {"category": PROPS[pid]["level"], "text": t["level_text"], "design_ref": "DESIGN.md §2 " + pid},
            "level_note": t["level_note"],
            "technique": t["technique"],
        })
    else:
        na.append({"property_id": pid, "reason": "monitor not built yet (build in progress); the design covers it with runtime monitoring, see DESIGN.md §2 " + pid})
manifest = {
    "version": 1,
    "setup_cmd": "./check --setup",
    "hooks": {
        "guard": "rosu_map_verif",
        "enable": "none needed: no hook was added to /repo; observation uses the public API, the crate's own `tracing` feature (harness feature `tr`) and a Recorder type implementing DecodeBeatmap. The guard name is reserved (RUSTFLAGS=--cfg rosu_map_verif) should a hook ever become necessary.",
        "baseline_off_cmd": "cd /repo && cargo test --workspace --no-fail-fast --offline",
        "source_commits": [],
        "add_only": True,
    },
    "engines": [{
        "name": "rvmon",
        "path": "harness/",
        "serves_properties": [c["property_id"] for c in checks],
        "kind_free_text": "Rust harness linked against /repo's working tree: workload generators, reference models, differential/metamorphic oracles, fault-injecting readers/writers; built as release, release+tracing, debug-assertions+overflow-checks, AddressSanitizer (nightly) and run under Miri; driven by ./check (python3) which shards work over processes, merges observations and writes evidence",
    }],
    "checks": checks,
    "not_applicable": na,
    "notes": "exit 0 held / 1 VIOLATION / 2 INCONCLUSIVE (never folded into the other two). Known findings: KNOWN_FINDINGS.txt. VERIF_SEED selects the PRNG streams. Repairs of genuine defects are `fix:` commits in /repo, listed as `fixed:` lines in KNOWN_FINDINGS.txt.",
}
with open(os.path.join(HERE, "MANIFEST.json"), "w") as f:
    json.dump(manifest, f, indent=1)
print("claimed", len(checks), "not_applicable", len(na))
