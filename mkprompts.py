#!/usr/bin/env python3
"""Writes the sub-agent prompts for one round of seeded breaking changes.

  python3 mkprompts.py <round> [hint-style]

One prompt per property goes to /tmp/agent<round>-Cxx.txt. A prompt contains only the text of the
property (statement + quantifier), the path of the agent's own scratch worktree and the list of
mechanisms used by earlier rounds (taken from seeded/*/meta.json), nothing else from /verif.
"""
import json, os, sys
HERE = os.path.dirname(os.path.abspath(__file__))
rnd = sys.argv[1]
style = sys.argv[2] if len(sys.argv) > 2 else "default"
props = [json.loads(l) for l in open(os.path.join(HERE, "properties.jsonl"))]

STYLES = {
    "default": "This time look for a change that involves TWO cooperating code sites (each edit or existing assumption looks fine alone), or state that is carried from one operation into a later, seemingly unrelated one, or a value that is only wrong for inputs at the edge of what the format accepts.",
    "refactor": "This time write the change as a maintainer would while doing ordinary upkeep: a performance optimisation (buffer reuse, early exit, avoiding an allocation or a second pass), a de-duplication of two similar code paths into one helper, a port of a newer upstream (osu!lazer) behaviour that is subtly different, a clippy-driven rewrite (float comparison, integer casts, iterator chains), or a change of a numeric type / rounding site. The diff should read as a reasonable commit with a sensible message; the breakage should be an unintended side effect that needs particular data to show.",
    "boundary": "This time make the breakage depend on a BOUNDARY or RARE VALUE: a numeric field exactly at a limit of the format (+-2^31-1, +-131072, 9000, 0, -0, the smallest/largest accepted value), a value on which single and double precision disagree, a count exactly at a threshold used by the code or by the standard library (an empty or one-element list, 20/21 elements for sorting, a buffer exactly full, a length exactly equal to a cumulative length), an unusual-but-valid combination of game mode and object kind, a rarely used optional field, or a character at the edge of an encoding range. Everything else must behave exactly as before, so that only a test which deliberately includes that boundary can see the change.",
    "sequence": "This time make the breakage depend on HISTORY: something that only goes wrong on the second or later use of a long-lived value (a reused buffer, a cached result, decoder state kept across lines, a map that is encoded twice or decoded-edited-encoded, an iterator that is abandoned and replaced, a reader that returns short chunks or transient errors in a particular order), or on the ORDER of records in the file (a section that appears twice, lines out of chronological order, a key repeated with a valid and an invalid value, a line that is rejected between two accepted ones). A single fresh call on an ordinary file must behave exactly as before.",
    "adversarial": "Assume the property is being checked by an automated harness of the usual kind: random and grammar-based input generators, exhaustive enumeration over small alphabets, differential comparison between API variants and against a reference model written from the property text, sanitizer builds. Think about what such a harness is LEAST likely to exercise - a code path reached only through an unusual but public entry point or accessor, an interaction between two features that are each tested alone (a game mode with an object kind, an encoding with a line ending, a cache with an edit), a value that generators built from round numbers never produce, a state that only exists after an error or an early return, the second file decoded or encoded by the same process - and put the breakage there. Everything a straightforward generator would produce must behave exactly as before.",
}

for p in props:
    pid = p["id"]
    used = []
    sd = os.path.join(HERE, "seeded")
    for d in sorted(os.listdir(sd)):
        if d == pid or d.startswith(pid + "-"):
            m = json.load(open(os.path.join(sd, d, "meta.json")))
            need = m.get("needs_to_manifest", "")
            if need and not need.startswith("see "):
                used.append(need.split(". First missed")[0].split(" First missed")[0])
    wt = "/tmp/wt%s-%s" % (rnd, pid)
    txt = f"""You are helping to test how well a verification setup detects realistic regressions in an open-source Rust library (rosu-map: decodes and encodes osu! `.osu` beatmap text files). You work ONLY inside your own scratch git worktree of the library at {wt} (never touch /repo or /verif, do not read anything under /verif). The library builds offline: use `cargo test --offline` / `cargo build --offline` inside the worktree (no network is available; do not add dependencies).

Here is a semantic property that the library is supposed to satisfy for ALL inputs / histories:

Property {pid} — {p['title']}

Statement: {p['statement']}

Quantified over: {p['quantifier']['text']}


Your task: make ONE small, realistic change to the library source (under {wt}/src) that BREAKS this property, while the crate still compiles and ALL existing tests still pass (`cargo test --offline` in the worktree must be green, including doc tests). The change should look like a plausible programming slip or well-meant refactoring/optimisation that a maintainer could really make (off-by-one, wrong comparison, dropped clear()/reset, swapped precedence, loosened or tightened limit, swallowed error, wrong separator, stale cache, wrong tolerance constant, early return in an edge case, two sites that each look fine alone, ...) — not sabotage, not a compile-time flag, not random garbage.

Earlier attempts already used the following mechanisms, so choose a DIFFERENT one (a different function, or a different clause of the property):
""" + "\n".join("  %d. %s" % (i + 1, u) for i, u in enumerate(used)) + f"""

{STYLES[style]}

Important: prefer a change that needs something SPECIFIC to manifest — a particular input shape, an unusual-but-valid value, a multi-step sequence of operations, a particular chunking/fault position, or two cooperating code sites — rather than something any ordinary use of the library would expose at once. Read the relevant source first so that the change is subtle.

Deliverables (all inside {wt}):
1. The source change itself, left UNCOMMITTED in the worktree (so `git -C {wt} diff` shows it). Do not commit.
2. A demonstration: a new integration test file `{wt}/tests/seeded_demo.rs` containing one or more `#[test]`s that use only the public API of the crate (`rosu_map::...`), which FAIL with your change and PASS on the unmodified source. Verify both directions yourself: run the demo with your change applied (must fail); then save and reverse your change with `git -C {wt} diff -- src > {wt}/my.patch && git -C {wt} apply -R {wt}/my.patch`, run the demo again (must pass), and restore the change with `git -C {wt} apply {wt}/my.patch`. NEVER use `git stash` (the stash is shared with other worktrees of the same repository and would mix up changes). The demo file is also left uncommitted/untracked.
3. A short report file `{wt}/SEEDED_REPORT.md` with: (a) what you changed and why it is a plausible slip, (b) exactly what is needed for the breakage to manifest (input shape / sequence / position), (c) the commands you ran and their outcome (existing tests green with the change; demo fails with / passes without the change).

Finish by replying with a 5-10 line summary (file(s) changed, the trigger, confirmation of the three checks). Do not print large diffs in your reply.
"""
    open("/tmp/agent%s-%s.txt" % (rnd, pid), "w").write(txt)
print("wrote 20 prompts for round", rnd)
