//! Table-driven reference interpretation of the key/value sections, events and
//! colours (C11), written from the property statement.

use rosu_map::{
    section::{
        colors::Color,
        events::BreakPeriod,
        general::{CountdownType, GameMode},
        hit_objects::hit_samples::SampleBank,
    },
    Beatmap,
};

#[derive(Debug, Clone, PartialEq)]
pub struct R {
    pub audio: String,
    pub lead: f64,
    pub preview: i32,
    pub bank: u8,
    pub vol: i32,
    pub stack: f32,
    pub mode: u8,
    pub letter: bool,
    pub special: bool,
    pub wide: bool,
    pub epi: bool,
    pub smpr: bool,
    pub cd: u8,
    pub cdo: i32,
    pub bookmarks: Vec<i32>,
    pub ds: f64,
    pub bd: i32,
    pub gs: i32,
    pub tz: f64,
    pub title: String,
    pub tu: String,
    pub artist: String,
    pub au: String,
    pub creator: String,
    pub version: String,
    pub source: String,
    pub tags: String,
    pub id: i32,
    pub setid: i32,
    pub hp: f32,
    pub cs: f32,
    pub od: f32,
    pub ar: f32,
    pub sm: f64,
    pub tr: f64,
    pub bg: String,
    pub breaks: Vec<(f64, f64)>,
    pub combos: Vec<[u8; 4]>,
    pub customs: Vec<(String, [u8; 4])>,
}

/// state that is not part of the result
#[derive(Default)]
pub struct Aux {
    pub has_ar: bool,
}

impl Default for R {
    fn default() -> Self {
        R {
            audio: String::new(),
            lead: 0.0,
            preview: -1,
            bank: 0,
            vol: 100,
            stack: 0.7,
            mode: 0,
            letter: false,
            special: false,
            wide: false,
            epi: false,
            smpr: false,
            cd: 1,
            cdo: 0,
            bookmarks: vec![],
            ds: 1.0,
            bd: 4,
            gs: 0,
            tz: 1.0,
            title: String::new(),
            tu: String::new(),
            artist: String::new(),
            au: String::new(),
            creator: String::new(),
            version: String::new(),
            source: String::new(),
            tags: String::new(),
            id: -1,
            setid: 0,
            hp: 5.0,
            cs: 5.0,
            od: 5.0,
            ar: 5.0,
            sm: 1.4,
            tr: 1.0,
            bg: String::new(),
            breaks: vec![],
            combos: vec![],
            customs: vec![],
        }
    }
}

const LIMIT: f64 = 2_147_483_647.0;

pub fn pi(s: &str) -> Option<i32> {
    let v: i32 = s.trim().parse().ok()?;
    if v < -i32::MAX {
        None
    } else {
        Some(v)
    }
}
pub fn pf64(s: &str) -> Option<f64> {
    let v: f64 = s.trim().parse().ok()?;
    if v.is_nan() || v.abs() > LIMIT {
        None
    } else {
        Some(v)
    }
}
pub fn pf32(s: &str) -> Option<f32> {
    let v: f32 = s.trim().parse().ok()?;
    if v.is_nan() || v.abs() > LIMIT as f32 {
        None
    } else {
        Some(v)
    }
}
pub fn strip_comment(s: &str) -> &str {
    s.find("//").map_or(s, |i| &s[..i]).trim_end()
}
/// value = trimmed text after the first colon; key = trimmed text before it
pub fn kv(s: &str) -> (&str, &str) {
    match s.split_once(':') {
        Some((k, v)) => (k.trim(), v.trim()),
        None => (s.trim(), ""),
    }
}
fn bank(s: &str) -> Option<u8> {
    match s {
        "0" | "None" => Some(0),
        "1" | "Normal" => Some(1),
        "2" | "Soft" => Some(2),
        "3" | "Drum" => Some(3),
        _ => None,
    }
}
fn clean_filename(s: &str) -> String {
    s.trim_matches('"').replace("\\\\", "\\").replace('\\', "/")
}

/// Apply one dispatched line of section `sec` (recorder numbering 0..=6 minus timing points).
pub fn apply(r: &mut R, aux: &mut Aux, sec: u8, line: &str) {
    match sec {
        0 => {
            let (k, v) = kv(strip_comment(line));
            let flag = |v: &str| pi(v).map(|n| n == 1);
            match k {
                "AudioFilename" => r.audio = v.replace('\\', "/"),
                "AudioLeadIn" => {
                    if let Some(n) = pi(v) {
                        r.lead = f64::from(n);
                    }
                }
                "PreviewTime" => {
                    if let Some(n) = pi(v) {
                        r.preview = n;
                    }
                }
                "SampleSet" => {
                    if let Some(b) = bank(v) {
                        r.bank = b;
                    }
                }
                "SampleVolume" => {
                    if let Some(n) = pi(v) {
                        r.vol = n;
                    }
                }
                "StackLeniency" => {
                    if let Some(n) = pf32(v) {
                        r.stack = n;
                    }
                }
                "Mode" => match v {
                    "0" => r.mode = 0,
                    "1" => r.mode = 1,
                    "2" => r.mode = 2,
                    "3" => r.mode = 3,
                    _ => {}
                },
                "LetterboxInBreaks" => {
                    if let Some(b) = flag(v) {
                        r.letter = b;
                    }
                }
                "SpecialStyle" => {
                    if let Some(b) = flag(v) {
                        r.special = b;
                    }
                }
                "WidescreenStoryboard" => {
                    if let Some(b) = flag(v) {
                        r.wide = b;
                    }
                }
                "EpilepsyWarning" => {
                    if let Some(b) = flag(v) {
                        r.epi = b;
                    }
                }
                "SamplesMatchPlaybackRate" => {
                    if let Some(b) = flag(v) {
                        r.smpr = b;
                    }
                }
                "Countdown" => match v {
                    "0" | "None" => r.cd = 0,
                    "1" | "Normal" => r.cd = 1,
                    "2" | "Half speed" => r.cd = 2,
                    "3" | "Double speed" => r.cd = 3,
                    _ => {}
                },
                "CountdownOffset" => {
                    if let Some(n) = pi(v) {
                        r.cdo = n;
                    }
                }
                _ => {}
            }
        }
        1 => {
            let (k, v) = kv(strip_comment(line));
            match k {
                "Bookmarks" => r.bookmarks = v.split(',').filter_map(|x| x.parse::<i32>().ok()).collect(),
                "DistanceSpacing" => {
                    if let Some(n) = pf64(v) {
                        r.ds = n;
                    }
                }
                "BeatDivisor" => {
                    if let Some(n) = pi(v) {
                        r.bd = n;
                    }
                }
                "GridSize" => {
                    if let Some(n) = pi(v) {
                        r.gs = n;
                    }
                }
                "TimelineZoom" => {
                    if let Some(n) = pf64(v) {
                        r.tz = n;
                    }
                }
                _ => {}
            }
        }
        2 => {
            let (k, v) = kv(line);
            match k {
                "Title" => r.title = v.into(),
                "TitleUnicode" => r.tu = v.into(),
                "Artist" => r.artist = v.into(),
                "ArtistUnicode" => r.au = v.into(),
                "Creator" => r.creator = v.into(),
                "Version" => r.version = v.into(),
                "Source" => r.source = v.into(),
                "Tags" => r.tags = v.into(),
                "BeatmapID" => {
                    if let Some(n) = pi(v) {
                        r.id = n;
                    }
                }
                "BeatmapSetID" => {
                    if let Some(n) = pi(v) {
                        r.setid = n;
                    }
                }
                _ => {}
            }
        }
        3 => {
            let (k, v) = kv(strip_comment(line));
            match k {
                "HPDrainRate" => {
                    if let Some(n) = pf32(v) {
                        r.hp = n;
                    }
                }
                "CircleSize" => {
                    if let Some(n) = pf32(v) {
                        r.cs = n;
                    }
                }
                "OverallDifficulty" => {
                    if let Some(n) = pf32(v) {
                        r.od = n;
                        if !aux.has_ar {
                            r.ar = n;
                        }
                    }
                }
                "ApproachRate" => {
                    if let Some(n) = pf32(v) {
                        r.ar = n;
                        aux.has_ar = true;
                    }
                }
                "SliderMultiplier" => {
                    if let Some(n) = pf64(v) {
                        r.sm = n.clamp(0.4, 3.6);
                    }
                }
                "SliderTickRate" => {
                    if let Some(n) = pf64(v) {
                        r.tr = n.clamp(0.5, 8.0);
                    }
                }
                _ => {}
            }
        }
        4 => {
            let f: Vec<&str> = strip_comment(line).split(',').collect();
            if f.len() < 3 {
                return;
            }
            match f[0] {
                "0" | "Background" => r.bg = clean_filename(f[2]),
                "1" | "Video" => {
                    let n = clean_filename(f[2]);
                    let b = n.as_bytes();
                    if b.len() >= 3 {
                        let ext: Vec<u8> = b[b.len() - 3..].iter().map(u8::to_ascii_lowercase).collect();
                        let video: [&[u8]; 7] = [b"mp4", b"mov", b"avi", b"flv", b"mpg", b"wmv", b"m4v"];
                        if !video.contains(&&ext[..]) {
                            r.bg = n;
                        }
                    }
                }
                "2" | "Break" => {
                    if let (Some(s), Some(e)) = (pf64(f[1]), pf64(f[2])) {
                        r.breaks.push((s, s.max(e)));
                    }
                }
                "4" | "Sprite" => {
                    if r.bg.is_empty() {
                        if let Some(x) = f.get(3) {
                            r.bg = clean_filename(x);
                        }
                    }
                }
                _ => {}
            }
        }
        6 => {
            let (k, v) = kv(strip_comment(line));
            if line.trim().is_empty() {
                return;
            }
            let p: Vec<&str> = v.split(',').map(str::trim).collect();
            if p.len() < 3 || p.len() > 4 {
                return;
            }
            let c: Vec<Option<u8>> = p[..3].iter().map(|x| x.parse::<u8>().ok()).collect();
            if c.iter().any(Option::is_none) {
                return;
            }
            let c = [c[0].unwrap(), c[1].unwrap(), c[2].unwrap(), 255];
            if k.starts_with("Combo") {
                r.combos.push(c);
            } else if let Some(e) = r.customs.iter_mut().find(|e| e.0 == k) {
                e.1 = c;
            } else {
                r.customs.push((k.to_string(), c));
            }
        }
        _ => {}
    }
}

pub fn proj(m: &Beatmap) -> R {
    R {
        audio: m.audio_file.clone(),
        lead: m.audio_lead_in,
        preview: m.preview_time,
        bank: match m.default_sample_bank {
            SampleBank::None => 0,
            SampleBank::Normal => 1,
            SampleBank::Soft => 2,
            SampleBank::Drum => 3,
        },
        vol: m.default_sample_volume,
        stack: m.stack_leniency,
        mode: match m.mode {
            GameMode::Osu => 0,
            GameMode::Taiko => 1,
            GameMode::Catch => 2,
            GameMode::Mania => 3,
        },
        letter: m.letterbox_in_breaks,
        special: m.special_style,
        wide: m.widescreen_storyboard,
        epi: m.epilepsy_warning,
        smpr: m.samples_match_playback_rate,
        cd: match m.countdown {
            CountdownType::None => 0,
            CountdownType::Normal => 1,
            CountdownType::HalfSpeed => 2,
            CountdownType::DoubleSpeed => 3,
        },
        cdo: m.countdown_offset,
        bookmarks: m.bookmarks.clone(),
        ds: m.distance_spacing,
        bd: m.beat_divisor,
        gs: m.grid_size,
        tz: m.timeline_zoom,
        title: m.title.clone(),
        tu: m.title_unicode.clone(),
        artist: m.artist.clone(),
        au: m.artist_unicode.clone(),
        creator: m.creator.clone(),
        version: m.version.clone(),
        source: m.source.clone(),
        tags: m.tags.clone(),
        id: m.beatmap_id,
        setid: m.beatmap_set_id,
        hp: m.hp_drain_rate,
        cs: m.circle_size,
        od: m.overall_difficulty,
        ar: m.approach_rate,
        sm: m.slider_multiplier,
        tr: m.slider_tick_rate,
        bg: m.background_file.clone(),
        breaks: m.breaks.iter().map(|b: &BreakPeriod| (b.start_time, b.end_time)).collect(),
        combos: m.custom_combo_colors.iter().map(|c: &Color| c.0).collect(),
        customs: m.custom_colors.iter().map(|c| (c.name.clone(), c.color.0)).collect(),
    }
}

/// Names of the fields that differ (compared through exact Debug rendering).
pub fn diff(a: &R, b: &R) -> Vec<String> {
    let (x, y) = (format!("{a:?}"), format!("{b:?}"));
    if x == y {
        return vec![];
    }
    let fx: Vec<&str> = x.split(", ").collect();
    let fy: Vec<&str> = y.split(", ").collect();
    let mut out: Vec<String> = fx
        .iter()
        .zip(&fy)
        .filter(|(p, q)| p != q)
        .map(|(p, q)| format!("{p} != {q}"))
        .take(4)
        .collect();
    if out.is_empty() {
        out.push("field list lengths differ".into());
    }
    out
}
