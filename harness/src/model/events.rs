//! Eager reference for the slider event stream (C20), written from the statement.

#[derive(Debug, Clone, PartialEq)]
pub struct Ev {
    /// 0 head, 1 tick, 2 repeat, 3 last tick, 4 tail
    pub k: u8,
    pub span: i32,
    pub sst: f64,
    pub t: f64,
    pub p: f64,
}

pub fn model(start: f64, sd: f64, vel: f64, td: f64, total: f64, spans: i32) -> Vec<Ev> {
    let len = total.min(100_000.0);
    let td = if td.is_nan() { td } else { td.max(0.0).min(len) };
    let min_dist_from_end = vel * 10.0;
    let mut out = vec![Ev { k: 0, span: 0, sst: start, t: start, p: 0.0 }];
    for s in 0..spans {
        let sst = start + f64::from(s) * sd;
        let reversed = s % 2 == 1;
        let mut ticks = vec![];
        if td > 0.0 {
            // ticks at multiples of the tick distance, never within 10 ms of travel of the span end
            let mut d = td;
            while d <= len {
                if d >= len - min_dist_from_end {
                    break;
                }
                let pp = d / len;
                let tp = if reversed { 1.0 - pp } else { pp };
                ticks.push(Ev { k: 1, span: s, sst, t: sst + tp * sd, p: pp });
                d += td;
            }
        }
        if reversed {
            ticks.reverse();
        }
        out.extend(ticks);
        if s < spans - 1 {
            out.push(Ev { k: 2, span: s, sst, t: sst + sd, p: f64::from((s + 1) % 2) });
        }
    }
    let fs = spans - 1;
    let fsst = start + f64::from(fs) * sd;
    let total_duration = f64::from(spans) * sd;
    let last_tick_time = (start + total_duration / 2.0).max(fsst + sd - 36.0);
    let mut lp = (last_tick_time - fsst) / sd;
    if spans % 2 == 0 {
        lp = 1.0 - lp;
    }
    out.push(Ev { k: 3, span: fs, sst: fsst, t: last_tick_time, p: lp });
    out.push(Ev { k: 4, span: fs, sst: fsst, t: start + total_duration, p: f64::from(spans % 2) });
    out
}
