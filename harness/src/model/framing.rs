//! Reference model of file framing (C05, C10), written from the property statement:
//! BOM sniff -> split on LF (per encoding: on the LF code unit) -> lossy text ->
//! trim trailing whitespace -> version rule -> skip to first recognised header ->
//! dispatch every non-blank, non-comment line to the most recent recognised header.

use crate::obs::recorder::{header_of, Trace};

pub const LATEST: i32 = 14;
pub const PREFIX: &str = "osu file format v";

#[derive(Clone, Copy, Debug, PartialEq, Eq)]
pub enum Sniffed {
    Utf8,
    Utf16Le,
    Utf16Be,
}

pub fn sniff(bytes: &[u8]) -> (Sniffed, usize) {
    match bytes {
        [0xEF, 0xBB, 0xBF, ..] => (Sniffed::Utf8, 3),
        [0xFF, 0xFE, ..] => (Sniffed::Utf16Le, 2),
        [0xFE, 0xFF, ..] => (Sniffed::Utf16Be, 2),
        _ => (Sniffed::Utf8, 0),
    }
}

/// The lines of the file as the statement defines them (already trimmed at the end).
pub fn lines(bytes: &[u8]) -> Vec<String> {
    let (enc, skip) = sniff(bytes);
    let body = &bytes[skip..];
    let mut out = Vec::new();
    match enc {
        Sniffed::Utf8 => {
            if !body.is_empty() {
                for l in body.split_inclusive(|b| *b == b'\n') {
                    out.push(String::from_utf8_lossy(l).trim_end().to_owned());
                }
            }
        }
        Sniffed::Utf16Le | Sniffed::Utf16Be => {
            let units: Vec<u16> = body
                .chunks_exact(2)
                .map(|c| {
                    if enc == Sniffed::Utf16Le {
                        u16::from_le_bytes([c[0], c[1]])
                    } else {
                        u16::from_be_bytes([c[0], c[1]])
                    }
                })
                .collect();
            if !units.is_empty() {
                for l in units.split_inclusive(|u| *u == 0x000A) {
                    out.push(String::from_utf16_lossy(l).trim_end().to_owned());
                }
            } else if !body.is_empty() {
                // a lone odd byte after the BOM: one (empty) line
                out.push(String::new());
            }
        }
    }
    out
}

pub fn parse_version_number(line: &str) -> Option<i32> {
    // number after the last 'v', surrounding whitespace tolerated, |n| <= 2^31-1
    let tail = line.rsplit('v').next()?;
    let n: i32 = tail.trim().parse().ok()?;
    if n < -i32::MAX {
        None
    } else {
        Some(n)
    }
}

pub fn is_skipped(line: &str) -> bool {
    line.is_empty() || line.trim_start().starts_with("//")
}

pub fn trace_of_lines(lines: &[String]) -> Trace {
    let mut i = 0;
    let mut version = LATEST;
    let mut reuse = false;
    while i < lines.len() {
        let l = &lines[i];
        i += 1;
        if l.is_empty() {
            continue;
        }
        if l.starts_with(PREFIX) {
            match parse_version_number(l) {
                Some(n) => version = n,
                None => reuse = true,
            }
        } else {
            reuse = true;
        }
        break;
    }
    let mut t = Trace {
        version,
        calls: Vec::new(),
    };
    if reuse {
        i -= 1;
    }
    let mut cur = None;
    while i < lines.len() {
        let l = &lines[i];
        i += 1;
        if let Some(s) = header_of(l) {
            cur = Some(s);
            break;
        }
    }
    let Some(mut cur) = cur else { return t };
    while i < lines.len() {
        let l = &lines[i];
        i += 1;
        if is_skipped(l) {
            continue;
        }
        if let Some(s) = header_of(l) {
            cur = s;
            continue;
        }
        t.calls.push((cur, l.clone()));
    }
    t
}

pub fn model(bytes: &[u8]) -> Trace {
    trace_of_lines(&lines(bytes))
}

/// Indices (into `lines`) of the lines that are dispatched to a section parser, with
/// their section, in order — the same walk as `trace_of_lines`, keeping positions.
pub fn dispatched_indices(lines: &[String]) -> Vec<(usize, u8)> {
    let mut i = 0;
    let mut reuse = false;
    while i < lines.len() {
        let l = &lines[i];
        i += 1;
        if l.is_empty() {
            continue;
        }
        if !(l.starts_with(PREFIX) && parse_version_number(l).is_some()) {
            reuse = true;
        }
        break;
    }
    if reuse {
        i -= 1;
    }
    let mut cur = None;
    while i < lines.len() {
        let l = &lines[i];
        i += 1;
        if let Some(s) = header_of(l) {
            cur = Some(s);
            break;
        }
    }
    let mut out = Vec::new();
    let Some(mut cur) = cur else { return out };
    while i < lines.len() {
        let l = &lines[i];
        if !is_skipped(l) {
            if let Some(s) = header_of(l) {
                cur = s;
            } else {
                out.push((i, cur));
            }
        }
        i += 1;
    }
    out
}
