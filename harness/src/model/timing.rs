//! Reference models for timing-point lines (C12) and for the control-point
//! collections (C13): linear scans and plain `Vec` inserts only.

use rosu_map::section::{hit_objects::hit_samples::SampleBank, timing_points::ControlPoints};

#[derive(Clone, Debug, PartialEq)]
pub struct T {
    pub time: f64,
    pub bl: f64,
    pub omit: bool,
    pub sig: u32,
}
#[derive(Clone, Debug, PartialEq)]
pub struct D {
    pub time: f64,
    pub sv: f64,
    pub ticks: bool,
}
#[derive(Clone, Debug, PartialEq)]
pub struct E {
    pub time: f64,
    pub kiai: bool,
    pub scroll: f64,
}
#[derive(Clone, Debug, PartialEq)]
pub struct S {
    pub time: f64,
    pub bank: u8,
    pub vol: i32,
    pub custom: i32,
}

#[derive(Default, Debug, Clone, PartialEq)]
pub struct CP {
    pub t: Vec<T>,
    pub d: Vec<D>,
    pub e: Vec<E>,
    pub s: Vec<S>,
}

/// insert keeping time order; a point at an existing time replaces it
fn ins<X>(v: &mut Vec<X>, x: X, time: impl Fn(&X) -> f64) {
    let t = time(&x);
    let mut i = 0;
    while i < v.len() && time(&v[i]) < t {
        i += 1;
    }
    if i < v.len() && time(&v[i]) == t {
        v[i] = x;
    } else {
        v.insert(i, x);
    }
}

/// latest point with time <= t
pub fn active<X>(v: &[X], t: f64, time: impl Fn(&X) -> f64) -> Option<&X> {
    let mut r = None;
    for x in v {
        if time(x) <= t {
            r = Some(x);
        }
    }
    r
}

pub const D_DEFAULT: D = D { time: 0.0, sv: 1.0, ticks: true };
pub const E_DEFAULT: E = E { time: 0.0, kiai: false, scroll: 1.0 };

impl CP {
    pub fn add_t(&mut self, x: T) {
        ins(&mut self.t, x, |a| a.time);
    }
    pub fn add_d(&mut self, x: D) {
        let ex = active(&self.d, x.time, |a| a.time).cloned().unwrap_or(D_DEFAULT);
        if x.ticks == ex.ticks && (x.sv - ex.sv).abs() < f64::EPSILON {
            return;
        }
        ins(&mut self.d, x, |a| a.time);
    }
    pub fn add_e(&mut self, x: E) {
        let ex = active(&self.e, x.time, |a| a.time).cloned().unwrap_or(E_DEFAULT);
        if x.kiai == ex.kiai && (x.scroll - ex.scroll).abs() < f64::EPSILON {
            return;
        }
        ins(&mut self.e, x, |a| a.time);
    }
    pub fn add_s(&mut self, x: S) {
        if let Some(ex) = active(&self.s, x.time, |a| a.time) {
            if ex.bank == x.bank && ex.vol == x.vol && ex.custom == x.custom {
                return;
            }
        }
        ins(&mut self.s, x, |a| a.time);
    }

    // lookups per the statement: latest point not after t; before the first point timing and
    // sample lookups give the first point, difficulty and effect lookups give nothing
    pub fn t_at(&self, t: f64) -> Option<&T> {
        active(&self.t, t, |a| a.time).or(self.t.first())
    }
    pub fn s_at(&self, t: f64) -> Option<&S> {
        active(&self.s, t, |a| a.time).or(self.s.first())
    }
    pub fn d_at(&self, t: f64) -> Option<&D> {
        active(&self.d, t, |a| a.time)
    }
    pub fn e_at(&self, t: f64) -> Option<&E> {
        active(&self.e, t, |a| a.time)
    }
}

#[derive(Default)]
struct Pend {
    time: f64,
    t: Option<T>,
    d: Option<D>,
    e: Option<E>,
    s: Option<S>,
}

fn flush(p: &mut Pend, cp: &mut CP) {
    if let Some(x) = p.t.take() {
        cp.add_t(x);
    }
    if let Some(x) = p.d.take() {
        cp.add_d(x);
    }
    if let Some(x) = p.e.take() {
        cp.add_e(x);
    }
    if let Some(x) = p.s.take() {
        cp.add_s(x);
    }
}

const LIMIT: f64 = 2_147_483_647.0;

fn pint(s: &str) -> Option<i32> {
    let n: i32 = s.trim().parse().ok()?;
    if n < -i32::MAX {
        None
    } else {
        Some(n)
    }
}

/// The legacy model: `lines` are the lines dispatched to the timing-point parser, in order.
/// `default_bank` (0..=3) and `default_volume` are the General values in force.
pub fn model(lines: &[&str], mode: u8, default_bank: u8, default_volume: i32) -> (CP, Vec<bool>) {
    let mut cp = CP::default();
    let mut p = Pend::default();
    let mut accepted = Vec::with_capacity(lines.len());
    for raw in lines {
        accepted.push(false);
        let l = raw.find("//").map_or(*raw, |i| &raw[..i]).trim_end();
        let f: Vec<&str> = l.split(',').collect();
        if f.len() < 2 {
            continue;
        }
        let Ok(time) = f[0].trim().parse::<f64>() else { continue };
        if time.is_nan() || time.abs() > LIMIT {
            continue;
        }
        let Ok(bl) = f[1].trim().parse::<f64>() else { continue };
        if bl < -LIMIT || bl > LIMIT {
            continue;
        }
        let sm = if bl < 0.0 { 100.0 / -bl } else { 1.0 };
        let mut sig = 4u32;
        if let Some(x) = f.get(2) {
            if !x.starts_with('0') {
                match pint(x) {
                    Some(n) if n > 0 => sig = n as u32,
                    _ => continue,
                }
            }
        }
        let mut bank = default_bank;
        if let Some(x) = f.get(3) {
            match pint(x) {
                Some(n) => {
                    if (0..=3).contains(&n) {
                        bank = n as u8;
                    }
                }
                None => continue,
            }
        }
        let mut custom = 0;
        if let Some(x) = f.get(4) {
            match pint(x) {
                Some(n) => custom = n,
                None => continue,
            }
        }
        let mut vol = default_volume;
        if let Some(x) = f.get(5) {
            match pint(x) {
                Some(n) => vol = n,
                None => continue,
            }
        }
        let tc = f.get(6).map_or(true, |x| x.starts_with('1'));
        let (mut kiai, mut omit) = (false, false);
        if let Some(x) = f.get(7) {
            match x.parse::<i32>() {
                Ok(n) => {
                    kiai = n & 1 != 0;
                    omit = n & 8 != 0;
                }
                Err(_) => continue,
            }
        }
        if bank == 0 {
            bank = 1;
        }
        if tc && bl.is_nan() {
            continue;
        }
        *accepted.last_mut().unwrap() = true;
        // lines sharing a time form a group (exactly equal times; -0 and 0 are the same time)
        #[allow(clippy::float_cmp)]
        if time != p.time {
            flush(&mut p, &mut cp);
        }
        let d = D { time, sv: sm.clamp(0.1, 10.0), ticks: !bl.is_nan() };
        let s = S { time, bank, vol: vol.clamp(0, 100), custom };
        let e = E { time, kiai, scroll: if mode == 1 || mode == 3 { sm.clamp(0.01, 10.0) } else { 1.0 } };
        if tc {
            // timing-change lines: the first one of a group wins, and never beats an inherited line
            let t = T { time, bl: bl.clamp(6.0, 60000.0), omit, sig };
            if p.t.is_none() {
                p.t = Some(t);
            }
            if p.d.is_none() {
                p.d = Some(d);
            }
            if p.s.is_none() {
                p.s = Some(s);
            }
            if p.e.is_none() {
                p.e = Some(e);
            }
        } else {
            // inherited lines: the last one wins
            p.d = Some(d);
            p.s = Some(s);
            p.e = Some(e);
        }
        p.time = time;
    }
    flush(&mut p, &mut cp);
    (cp, accepted)
}

pub fn bank_u8(b: SampleBank) -> u8 {
    match b {
        SampleBank::None => 0,
        SampleBank::Normal => 1,
        SampleBank::Soft => 2,
        SampleBank::Drum => 3,
    }
}

pub fn project(r: &ControlPoints) -> CP {
    CP {
        t: r.timing_points.iter().map(|b| T { time: b.time, bl: b.beat_len, omit: b.omit_first_bar_line, sig: b.time_signature.numerator.get() }).collect(),
        d: r.difficulty_points.iter().map(|b| D { time: b.time, sv: b.slider_velocity, ticks: b.generate_ticks }).collect(),
        e: r.effect_points.iter().map(|b| E { time: b.time, kiai: b.kiai, scroll: b.scroll_speed }).collect(),
        s: r.sample_points.iter().map(|b| S { time: b.time, bank: bank_u8(b.sample_bank), vol: b.sample_volume, custom: b.custom_sample_bank }).collect(),
    }
}

/// exact comparison; times by bit pattern except that -0.0 and 0.0 are the same time
pub fn same(a: &CP, b: &CP) -> bool {
    let teq = |x: f64, y: f64| x == y || x.to_bits() == y.to_bits();
    let feq = |x: f64, y: f64| x.to_bits() == y.to_bits() || (x == y);
    a.t.len() == b.t.len()
        && a.d.len() == b.d.len()
        && a.e.len() == b.e.len()
        && a.s.len() == b.s.len()
        && a.t.iter().zip(&b.t).all(|(x, y)| teq(x.time, y.time) && feq(x.bl, y.bl) && x.omit == y.omit && x.sig == y.sig)
        && a.d.iter().zip(&b.d).all(|(x, y)| teq(x.time, y.time) && feq(x.sv, y.sv) && x.ticks == y.ticks)
        && a.e.iter().zip(&b.e).all(|(x, y)| teq(x.time, y.time) && x.kiai == y.kiai && feq(x.scroll, y.scroll))
        && a.s.iter().zip(&b.s).all(|(x, y)| teq(x.time, y.time) && x.bank == y.bank && x.vol == y.vol && x.custom == y.custom)
}

/// Structural invariants, asserted independently of the model.
pub fn invariants(r: &ControlPoints, mode: u8) -> Result<(), String> {
    let strict = |ts: Vec<f64>, what: &str| -> Result<(), String> {
        for w in ts.windows(2) {
            if !(w[0] < w[1]) {
                return Err(format!("{what} list is not strictly increasing in time: {:?} then {:?}", w[0], w[1]));
            }
        }
        Ok(())
    };
    strict(r.timing_points.iter().map(|p| p.time).collect(), "timing")?;
    strict(r.difficulty_points.iter().map(|p| p.time).collect(), "difficulty")?;
    strict(r.effect_points.iter().map(|p| p.time).collect(), "effect")?;
    strict(r.sample_points.iter().map(|p| p.time).collect(), "sample")?;
    for p in &r.timing_points {
        if !(6.0..=60000.0).contains(&p.beat_len) {
            return Err(format!("beat length {} outside [6, 60000]", p.beat_len));
        }
    }
    for p in &r.difficulty_points {
        if !(0.1..=10.0).contains(&p.slider_velocity) {
            return Err(format!("slider velocity {} outside [0.1, 10]", p.slider_velocity));
        }
    }
    for p in &r.effect_points {
        if mode == 1 || mode == 3 {
            if !(0.01..=10.0).contains(&p.scroll_speed) {
                return Err(format!("scroll speed {} outside [0.01, 10]", p.scroll_speed));
            }
        } else if p.scroll_speed != 1.0 {
            return Err(format!("scroll speed {} set outside taiko/mania", p.scroll_speed));
        }
    }
    for p in &r.sample_points {
        if !(0..=100).contains(&p.sample_volume) {
            return Err(format!("sample volume {} outside [0, 100]", p.sample_volume));
        }
    }
    Ok(())
}
