//! Independent reference parser for hit-object lines (C14), written from the
//! property statement / legacy grammar. Compared on what the line alone determines
//! (the parser state before map-level defaults are applied).

use rosu_map::section::hit_objects::{
    hit_samples::{HitSampleDefaultName, HitSampleInfo, HitSampleInfoName, SampleBank},
    HitObject, HitObjectKind, SplineType,
};

#[derive(Debug, Clone, PartialEq)]
pub struct RSample {
    /// Ok(0 normal, 1 whistle, 2 finish, 3 clap) or Err(file name)
    pub name: Result<u8, String>,
    pub bank: u8,
    pub suffix: Option<u32>,
    pub volume: i32,
    pub custom: i32,
    pub bank_specified: bool,
    pub layered: bool,
}

/// control point: relative position and optional (type 0 catmull / 1 bezier / 2 linear / 3 perfect, degree)
pub type Cp = (f32, f32, Option<(u8, Option<i32>)>);

#[derive(Debug, Clone, PartialEq)]
pub enum RKind {
    Circle { x: f32, y: f32, nc: bool, co: i32 },
    Slider { x: f32, y: f32, nc: bool, co: i32, cps: Vec<Cp>, len: Option<f64>, nodes: Vec<Vec<RSample>>, repeat: i32 },
    Spinner { dur: f64, nc: bool },
    Hold { x: f32, dur: f64 },
}

#[derive(Debug, Clone, PartialEq)]
pub struct RObj {
    pub t: f64,
    pub kind: RKind,
    pub samples: Vec<RSample>,
}

impl RObj {
    pub fn is_spinner(&self) -> bool {
        matches!(self.kind, RKind::Spinner { .. })
    }
}

fn pf64(s: &str, lim: f64) -> Option<f64> {
    let v: f64 = s.trim().parse().ok()?;
    if v.is_nan() || v < -lim || v > lim {
        None
    } else {
        Some(v)
    }
}
fn pf32(s: &str, lim: f32) -> Option<f32> {
    let v: f32 = s.trim().parse().ok()?;
    if v.is_nan() || v < -lim || v > lim {
        None
    } else {
        Some(v)
    }
}
fn pi32(s: &str) -> Option<i32> {
    let v: i32 = s.trim().parse().ok()?;
    if v < -i32::MAX {
        None
    } else {
        Some(v)
    }
}

#[derive(Clone, Default)]
struct Bank {
    file: Option<String>,
    normal: Option<u8>,
    add: Option<u8>,
    vol: i32,
    custom: i32,
}

fn to_bank(n: i32) -> u8 {
    if (0..=3).contains(&n) {
        n as u8
    } else {
        1
    }
}

fn read_bank(b: &mut Bank, s: &str, banks_only: bool) -> Option<()> {
    let mut it = s.split(':');
    let first = match it.next() {
        Some(f) if !f.is_empty() => f,
        _ => return Some(()),
    };
    let bank = to_bank(pi32(first)?);
    let add = to_bank(pi32(it.next()?)?);
    let nb = if bank != 0 { Some(bank) } else { None };
    let ab = if add != 0 { Some(add) } else { None };
    b.normal = nb;
    b.add = ab.or(nb);
    if banks_only {
        return Some(());
    }
    if let Some(n) = it.next() {
        b.custom = pi32(n)?;
    }
    if let Some(n) = it.next() {
        b.vol = pi32(n)?.max(0);
    }
    b.file = it.next().map(str::to_owned);
    Some(())
}

fn mk(name: Result<u8, String>, bank: Option<u8>, custom: i32, vol: i32) -> RSample {
    RSample {
        name,
        bank: bank.unwrap_or(1),
        suffix: if custom >= 2 { Some(custom as u32) } else { None },
        volume: vol,
        custom,
        bank_specified: bank.is_some(),
        layered: false,
    }
}

/// hit-sound bits -> sample list: normal (or file) first, then finish, whistle, clap
fn convert(b: &Bank, snd: u8) -> Vec<RSample> {
    let mut v = vec![];
    match &b.file {
        Some(f) if !f.is_empty() => v.push(mk(Err(f.clone()), None, 1, b.vol)),
        _ => {
            let mut s = mk(Ok(0), b.normal, b.custom, b.vol);
            s.layered = snd != 0 && snd & 1 == 0;
            v.push(s);
        }
    }
    if snd & 4 != 0 {
        v.push(mk(Ok(2), b.add, b.custom, b.vol));
    }
    if snd & 2 != 0 {
        v.push(mk(Ok(1), b.add, b.custom, b.vol));
    }
    if snd & 8 != 0 {
        v.push(mk(Ok(3), b.add, b.custom, b.vol));
    }
    v
}

fn ptype(tok: &str) -> (u8, Option<i32>) {
    let mut ch = tok.chars();
    match ch.next() {
        Some('B') => match ch.as_str().parse::<i32>() {
            Ok(d) if d > 0 => (1, Some(d)),
            _ => (1, None),
        },
        Some('L') => (2, None),
        Some('P') => (3, None),
        _ => (0, None),
    }
}

fn rpoint(tok: &str, ox: f32, oy: f32) -> Option<(f32, f32)> {
    let mut it = tok.split(':');
    let x = it.next()?;
    let y = it.next()?;
    let x = pf64(x, 131_072.0);
    let y = pf64(y, 131_072.0);
    let (x, y) = (x?, y?);
    Some(((x as i32 as f32) - ox, (y as i32 as f32) - oy))
}

/// The legacy path-string rules.
pub fn path(s: &str, ox: f32, oy: f32) -> Option<Vec<Cp>> {
    let toks: Vec<&str> = s.split('|').collect();
    let mut out: Vec<Cp> = vec![];
    // token 0 carries the first type; later tokens starting with an ASCII letter open a new segment
    let mut starts = vec![0usize];
    for (i, t) in toks.iter().enumerate().skip(1) {
        let c = t.chars().next()?; // an empty token invalidates the line
        if c.is_ascii_alphabetic() {
            starts.push(i);
        }
    }
    for (si, &st) in starts.iter().enumerate() {
        let en = starts.get(si + 1).copied().unwrap_or(toks.len());
        let first = si == 0;
        // the first point of the next segment also ends this one
        let end_point = if si + 1 < starts.len() { toks.get(en + 1).copied() } else { None };
        let mut ty = ptype(toks[st]);
        let mut verts: Vec<Cp> = vec![];
        if first {
            verts.push((0.0, 0.0, None));
        }
        for t in &toks[st + 1..en] {
            let p = rpoint(t, ox, oy)?;
            verts.push((p.0, p.1, None));
        }
        let epl = if let Some(e) = end_point {
            let p = rpoint(e, ox, oy)?;
            verts.push((p.0, p.1, None));
            1
        } else {
            0
        };
        if ty == (3, None) {
            if verts.len() == 3 {
                let (a, b, c) = (verts[0], verts[1], verts[2]);
                if ((b.1 - a.1) * (c.0 - a.0) - (b.0 - a.0) * (c.1 - a.1)).abs() < f32::EPSILON {
                    ty = (2, None);
                }
            } else {
                ty = (1, None);
            }
        }
        if verts.is_empty() {
            return None;
        }
        verts[0].2 = Some(ty);
        let n = verts.len() - epl;
        let mut seg_start = 0;
        let mut i = 1;
        while i < n {
            let dup = verts[i].0 == verts[i - 1].0 && verts[i].1 == verts[i - 1].1;
            // a repeated point splits, except in Catmull paths (after the first pair) and at a segment's end
            if dup && !(ty.0 == 0 && i > 1) && i != n - 1 {
                verts[i - 1].2 = Some(ty);
                out.extend_from_slice(&verts[seg_start..i]);
                seg_start = i + 1;
            }
            i += 1;
        }
        if n > seg_start {
            out.extend_from_slice(&verts[seg_start..n]);
        }
    }
    Some(out)
}

fn trim_comment(s: &str) -> &str {
    s.find("//").map_or(s, |i| &s[..i]).trim_end()
}

/// `first`: no object accepted yet; `after_spinner`: the previous accepted object was a spinner.
pub fn parse(line: &str, first: bool, after_spinner: bool) -> Option<RObj> {
    let f: Vec<&str> = trim_comment(line).split(',').collect();
    if f.len() < 5 {
        return None;
    }
    let x = pf32(f[0], 131_072.0)? as i32 as f32;
    let y = pf32(f[1], 131_072.0)? as i32 as f32;
    let t = pf64(f[2], 2_147_483_647.0)?;
    let mut ty: i32 = f[3].parse().ok()?;
    let co = (ty & 0x70) >> 4;
    ty &= !0x70;
    let nc = ty & 4 != 0;
    ty &= !4;
    let snd = (f[4].parse::<i32>().ok()? & 0xff) as u8;
    let mut b = Bank::default();
    // flag precedence circle > slider > spinner > hold
    let kind = if ty & 1 != 0 {
        if let Some(s) = f.get(5) {
            read_bank(&mut b, s, false)?;
        }
        RKind::Circle { x, y, nc: first || after_spinner || nc, co: if nc { co } else { 0 } }
    } else if ty & 2 != 0 {
        let ps = f.get(5)?;
        let rc = f.get(6)?;
        let rc = pi32(rc)?;
        if rc > 9000 {
            return None;
        }
        let repeat = (rc - 1).max(0);
        let mut len = None;
        if let Some(l) = f.get(7) {
            let v = pf64(l, 131_072.0)?.max(0.0);
            if v.abs() >= f64::EPSILON {
                len = Some(v);
            }
        }
        if let Some(s) = f.get(10) {
            read_bank(&mut b, s, true)?;
        }
        let nodes = repeat as usize + 2;
        let mut nb = vec![b.clone(); nodes];
        if let Some(s) = f.get(9).filter(|s| !s.is_empty()) {
            for (bi, set) in nb.iter_mut().zip(s.split('|')) {
                read_bank(bi, set, false)?;
            }
        }
        let mut ns = vec![snd; nodes];
        if let Some(s) = f.get(8).filter(|s| !s.is_empty()) {
            for (st, tok) in ns.iter_mut().zip(s.split('|')) {
                *st = tok.parse::<i32>().map(|n| (n & 0xff) as u8).unwrap_or(0);
            }
        }
        let node_samples: Vec<Vec<RSample>> = nb.iter().zip(ns).map(|(bi, st)| convert(bi, st)).collect();
        let cps = path(ps, x, y)?;
        RKind::Slider { x, y, nc: first || after_spinner || nc, co: if nc { co } else { 0 }, cps, len, nodes: node_samples, repeat }
    } else if ty & 8 != 0 {
        let end = pf64(f.get(5)?, 2_147_483_647.0)?;
        if let Some(s) = f.get(6) {
            read_bank(&mut b, s, false)?;
        }
        RKind::Spinner { dur: (end - t).max(0.0), nc }
    } else if ty & 128 != 0 {
        let mut end = t;
        if let Some(s) = f.get(5).filter(|s| !s.is_empty()) {
            let mut it = s.splitn(2, ':');
            let e = pf64(it.next()?, 2_147_483_647.0)?;
            end = t.max(e);
            if let Some(rest) = it.next() {
                read_bank(&mut b, rest, false)?;
            }
        }
        RKind::Hold { x, dur: end - t }
    } else {
        return None;
    };
    Some(RObj { t, kind, samples: convert(&b, snd) })
}

// ---------------------------------------------------------------- projection of the real value

pub fn proj_sample(s: &HitSampleInfo) -> RSample {
    RSample {
        name: match &s.name {
            HitSampleInfoName::Default(d) => Ok(match d {
                HitSampleDefaultName::Normal => 0,
                HitSampleDefaultName::Whistle => 1,
                HitSampleDefaultName::Finish => 2,
                HitSampleDefaultName::Clap => 3,
            }),
            HitSampleInfoName::File(f) => Err(f.clone()),
        },
        bank: match s.bank {
            SampleBank::None => 0,
            SampleBank::Normal => 1,
            SampleBank::Soft => 2,
            SampleBank::Drum => 3,
        },
        suffix: s.suffix.map(std::num::NonZeroU32::get),
        volume: s.volume,
        custom: s.custom_sample_bank,
        bank_specified: s.bank_specified,
        layered: s.is_layered,
    }
}

pub fn proj(h: &HitObject) -> RObj {
    let kind = match &h.kind {
        HitObjectKind::Circle(c) => RKind::Circle { x: c.pos.x, y: c.pos.y, nc: c.new_combo, co: c.combo_offset },
        HitObjectKind::Slider(s) => RKind::Slider {
            x: s.pos.x,
            y: s.pos.y,
            nc: s.new_combo,
            co: s.combo_offset,
            cps: s
                .path
                .control_points()
                .iter()
                .map(|p| {
                    (
                        p.pos.x,
                        p.pos.y,
                        p.path_type.map(|t| {
                            (
                                match t.kind {
                                    SplineType::Catmull => 0,
                                    SplineType::BSpline => 1,
                                    SplineType::Linear => 2,
                                    SplineType::PerfectCurve => 3,
                                },
                                t.degree.map(std::num::NonZeroI32::get),
                            )
                        }),
                    )
                })
                .collect(),
            len: s.path.expected_dist(),
            nodes: s.node_samples.iter().map(|v| v.iter().map(proj_sample).collect()).collect(),
            repeat: s.repeat_count,
        },
        HitObjectKind::Spinner(s) => RKind::Spinner { dur: s.duration, nc: s.new_combo },
        HitObjectKind::Hold(hd) => RKind::Hold { x: hd.pos_x, dur: hd.duration },
    };
    RObj { t: h.start_time, kind, samples: h.samples.iter().map(proj_sample).collect() }
}

/// exact comparison with NaN-free floats (none of the parsed values can be NaN)
pub fn same(a: &RObj, b: &RObj) -> bool {
    format!("{a:?}") == format!("{b:?}")
}
