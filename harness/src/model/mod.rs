pub mod framing;
pub mod sections;
pub mod timing;
