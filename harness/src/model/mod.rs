pub mod events;
pub mod framing;
pub mod hitobject;
pub mod sections;
pub mod timing;
