pub mod framing;
