//! G_path: control-point lists for the curve monitors (C16-C19).

use rosu_map::{
    section::{
        general::GameMode,
        hit_objects::{PathControlPoint, PathType},
    },
    util::Pos,
};

use crate::util::Rng;

pub const TYPES: [PathType; 4] = [PathType::BEZIER, PathType::LINEAR, PathType::PERFECT_CURVE, PathType::CATMULL];
pub const MODES: [GameMode; 4] = [GameMode::Osu, GameMode::Taiko, GameMode::Catch, GameMode::Mania];

pub fn cp(x: f32, y: f32, t: Option<PathType>) -> PathControlPoint {
    let mut p = PathControlPoint::new(Pos::new(x, y));
    p.path_type = t;
    p
}

/// 1..=12 points, every type layout (including a typed last point), integer and fractional
/// coordinates, duplicates, collinear runs, occasionally huge coordinates.
pub fn random_points(r: &mut Rng) -> Vec<PathControlPoint> {
    let np = match r.below(8) {
        0 => 1,
        1 => 2,
        2 => 3,
        _ => 1 + r.below(12),
    };
    let grid = r.below(5);
    let mut pts: Vec<PathControlPoint> = Vec::with_capacity(np);
    let collinear = r.chance(1, 8);
    for i in 0..np {
        let (x, y) = if i == 0 {
            (0.0, 0.0)
        } else if collinear {
            (i as f32 * 17.0, i as f32 * 9.0)
        } else {
            match grid {
                0 => ((r.below(7) as f32 - 3.0) * 10.0, (r.below(7) as f32 - 3.0) * 10.0),
                1 => ((r.f() * 8192.0 - 4096.0) as i32 as f32, (r.f() * 8192.0 - 4096.0) as i32 as f32),
                2 => ((r.f() * 600.0 - 300.0) as f32, (r.f() * 600.0 - 300.0) as f32),
                3 => ((r.f() * 262_144.0 - 131_072.0) as i32 as f32, (r.f() * 262_144.0 - 131_072.0) as i32 as f32),
                _ => (r.range(-200, 500) as f32, r.range(-200, 400) as f32),
            }
        };
        let mut p = cp(x, y, None);
        if i == 0 || r.chance(1, 5) {
            p.path_type = Some(TYPES[r.below(4)]);
        }
        if i > 0 && r.chance(1, 8) {
            // duplicate of the previous point
            p.pos = pts[i - 1].pos;
        }
        pts.push(p);
    }
    if r.chance(1, 20) {
        pts[0].path_type = None; // untyped start = linear by convention
    }
    pts
}

pub fn describe(pts: &[PathControlPoint]) -> String {
    crate::obs::cmp::cps_render(pts)
}

pub fn mode_of(i: usize) -> GameMode {
    MODES[i % 4]
}
