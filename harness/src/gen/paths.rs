//! G_path: control-point lists for the curve monitors (C16-C19).

use rosu_map::{
    section::{
        general::GameMode,
        hit_objects::{BorrowedCurve, CurveBuffers, PathControlPoint, PathType},
    },
    util::Pos,
};

use crate::util::Rng;

pub const TYPES: [PathType; 4] = [PathType::BEZIER, PathType::LINEAR, PathType::PERFECT_CURVE, PathType::CATMULL];
pub const MODES: [GameMode; 4] = [GameMode::Osu, GameMode::Taiko, GameMode::Catch, GameMode::Mania];

pub fn cp(x: f32, y: f32, t: Option<PathType>) -> PathControlPoint {
    let mut p = PathControlPoint::new(Pos::new(x, y));
    p.path_type = t;
    p
}

/// 1..=12 points, every type layout (including a typed last point), integer and fractional
/// coordinates, duplicates, collinear runs, occasionally huge coordinates.
/// Perfect-curve segments at the edges of the arc construction: very flat arcs (sagitta below the
/// flattening tolerance, so the sub-point count bottoms out) and almost collinear triples far from
/// the slider start (the determinant of the differences is a small integer while the circumcircle
/// terms, built from the large absolute coordinates, cancel in single precision).
fn edge_arc(r: &mut Rng) -> Vec<PathControlPoint> {
    let perfect = Some(PathType::PERFECT_CURVE);
    let mut pts = Vec::new();
    if r.chance(1, 2) {
        let chord = 1.0 + r.f() * 60.0;
        let sag = [0.001, 0.01, 0.05, 0.09, 0.2][r.below(5)] * (0.5 + r.f());
        let th = r.f() * std::f64::consts::TAU;
        let (c, s) = (th.cos(), th.sin());
        let rot = |x: f64, y: f64| ((x * c - y * s) as f32, (x * s + y * c) as f32);
        let (bx, by) = rot(chord / 2.0 + (r.f() - 0.5) * chord * 0.3, sag);
        let (cx, cy) = rot(chord, 0.0);
        pts.push(cp(0.0, 0.0, perfect));
        pts.push(cp(bx, by, None));
        pts.push(cp(cx, cy, None));
        if r.chance(1, 3) {
            // integer form: (0,0) (10,1) (21,2)
            let k = 5 + r.below(20) as i32;
            pts[1].pos = Pos::new(k as f32, 1.0);
            pts[2].pos = Pos::new((2 * k + 1) as f32, 2.0);
        }
    } else {
        let far = |r: &mut Rng| {
            let sign = if r.chance(1, 2) { 1.0 } else { -1.0 };
            sign * r.range(50_000, 250_000) as f32
        };
        let (x, y) = (far(r), far(r));
        // differences u = (p, q) and w = m u + c (-t, s) with p s + q t = gcd: the determinant of the
        // differences is exactly c gcd, a small integer
        let (pi, qi) = (r.range(500, 1500), r.range(50, 300));
        let (g, s, t) = egcd(pi, qi);
        let m = 2 + r.below(2) as i64;
        let c = [-3i64, -2, -1, 1, 2, 3][r.below(6)];
        let _ = g;
        let (p, q) = (pi as f32, qi as f32);
        let (e1, e2) = ((m * pi - c * t) as f32 - 2.0 * p, (m * qi + c * s) as f32 - 2.0 * q);
        if r.chance(1, 2) {
            pts.push(cp(0.0, 0.0, Some(PathType::LINEAR)));
            pts.push(cp(x, y, perfect));
        } else {
            // the whole path far away: the first point is the origin by convention, so shift the triple
            pts.push(cp(0.0, 0.0, perfect));
            pts.push(cp(p, q, None));
            pts.push(cp(2.0 * p + e1, 2.0 * q + e2, None));
            let off = Pos::new(x, y);
            for pt in pts.iter_mut().skip(1) {
                pt.pos += off;
            }
            return pts;
        }
        pts.push(cp(x + p, y + q, None));
        pts.push(cp(x + 2.0 * p + e1, y + 2.0 * q + e2, None));
    }
    if r.chance(1, 4) {
        pts.push(cp(r.range(-200, 500) as f32, r.range(-200, 400) as f32, Some(TYPES[r.below(4)])));
        pts.push(cp(r.range(-200, 500) as f32, r.range(-200, 400) as f32, None));
    }
    pts
}

fn egcd(a: i64, b: i64) -> (i64, i64, i64) {
    if b == 0 {
        (a, 1, 0)
    } else {
        let (g, s, t) = egcd(b, a % b);
        (g, t, s - (a / b) * t)
    }
}

pub fn random_points(r: &mut Rng) -> Vec<PathControlPoint> {
    if r.chance(1, 10) {
        return edge_arc(r);
    }
    let np = match r.below(8) {
        0 => 1,
        1 => 2,
        2 => 3,
        _ => 1 + r.below(12),
    };
    let grid = r.below(5);
    let mut pts: Vec<PathControlPoint> = Vec::with_capacity(np);
    let collinear = r.chance(1, 8);
    for i in 0..np {
        let (x, y) = if i == 0 {
            (0.0, 0.0)
        } else if collinear {
            (i as f32 * 17.0, i as f32 * 9.0)
        } else {
            match grid {
                0 => ((r.below(7) as f32 - 3.0) * 10.0, (r.below(7) as f32 - 3.0) * 10.0),
                1 => ((r.f() * 8192.0 - 4096.0) as i32 as f32, (r.f() * 8192.0 - 4096.0) as i32 as f32),
                2 => ((r.f() * 600.0 - 300.0) as f32, (r.f() * 600.0 - 300.0) as f32),
                3 => ((r.f() * 262_144.0 - 131_072.0) as i32 as f32, (r.f() * 262_144.0 - 131_072.0) as i32 as f32),
                _ => (r.range(-200, 500) as f32, r.range(-200, 400) as f32),
            }
        };
        let mut p = cp(x, y, None);
        if i == 0 || r.chance(1, 5) {
            p.path_type = Some(TYPES[r.below(4)]);
        }
        if i > 0 && r.chance(1, 8) {
            // duplicate of the previous point
            p.pos = pts[i - 1].pos;
        }
        pts.push(p);
    }
    if r.chance(1, 20) {
        pts[0].path_type = None; // untyped start = linear by convention
    }
    pts
}

pub fn describe(pts: &[PathControlPoint]) -> String {
    crate::obs::cmp::cps_render(pts)
}

pub fn mode_of(i: usize) -> GameMode {
    MODES[i % 4]
}

/// Leave the scratch buffers in the state a previous *borrowed* computation leaves them in (path and
/// lengths of an unrelated curve still inside): the next computation must not depend on it.
pub fn dirty(r: &mut Rng, bufs: &mut CurveBuffers) {
    let pts = random_points(r);
    let mode = MODES[r.below(4)];
    let l = if r.chance(1, 2) { None } else { Some(r.f() * 300.0) };
    let c = BorrowedCurve::new(mode, &pts, l, bufs);
    std::hint::black_box(c.dist());
}
