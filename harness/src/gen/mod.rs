pub mod osu;
pub mod paths;

use crate::util::Rng;

// ------------------------------------------------------------------ corpus

pub struct Corpus {
    pub files: Vec<(String, Vec<u8>)>,
}

impl Corpus {
    /// The bundled maps of the repository under test.
    pub fn load(repo: &str) -> Self {
        let mut files = Vec::new();
        let dir = format!("{repo}/resources");
        if let Ok(rd) = std::fs::read_dir(&dir) {
            let mut names: Vec<_> = rd.filter_map(Result::ok).map(|e| e.path()).collect();
            names.sort();
            for p in names {
                if let Ok(bytes) = std::fs::read(&p) {
                    files.push((
                        p.file_name().map(|s| s.to_string_lossy().into_owned()).unwrap_or_default(),
                        bytes,
                    ));
                }
            }
        }
        Self { files }
    }

    pub fn small(&self) -> Vec<&(String, Vec<u8>)> {
        self.files.iter().filter(|f| f.1.len() <= 16 * 1024).collect()
    }

    pub fn large(&self) -> Vec<&(String, Vec<u8>)> {
        self.files.iter().filter(|f| f.1.len() > 16 * 1024).collect()
    }

    /// A line-aligned window of at most `max` bytes that keeps the head of the file
    /// (version line and first sections) plus a random slice of its body.
    pub fn window(r: &mut Rng, bytes: &[u8], max: usize) -> Vec<u8> {
        if bytes.len() <= max {
            return bytes.to_vec();
        }
        let line_start = |p: usize| bytes[..p].iter().rposition(|b| *b == b'\n').map_or(0, |q| q + 1);
        let ho = bytes
            .windows(12)
            .position(|w| w == b"[HitObjects]")
            .map_or(0, |p| (p + 13).min(bytes.len()));
        let head_end = line_start(ho.min(max / 2));
        let room = max - head_end;
        let rest = bytes.len() - head_end;
        let start = head_end + if rest > room { r.below(rest - room + 1) } else { 0 };
        let start = line_start(start).max(head_end);
        let end = line_start((start + room).min(bytes.len())).max(start);
        let mut out = bytes[..head_end].to_vec();
        out.extend_from_slice(&bytes[start..end]);
        out
    }
}

// ------------------------------------------------------------------ noise

pub fn noise(r: &mut Rng) -> Vec<u8> {
    let len = match r.below(6) {
        0 => r.below(8),
        1 => r.below(64),
        2 => r.below(512),
        _ => r.below(4096),
    };
    match r.below(4) {
        0 => r.bytes(len),
        1 => {
            // structural alphabet
            let alpha: &[u8] = b"[]:,|\n\r\0 0123456789-.eBLPC/\"\\\xef\xbb\xbf\xff\xfe";
            (0..len).map(|_| alpha[r.below(alpha.len())]).collect()
        }
        2 => {
            // header-ish fragments glued together
            let frags: &[&[u8]] = &[
                b"osu file format v14\n",
                b"[General]\n",
                b"[HitObjects]\n",
                b"[TimingPoints]\n",
                b"[Events]\n",
                b"[Colours]\n",
                b"[Metadata]\n",
                b"[Difficulty]\n",
                b"[Editor]\n",
                b"0,0,0,1,0\n",
                b"256,192,1000,2,0,B|1:1|2:2,1,100\n",
                b"0,500,4,1,0,100,1,0\n",
                b"Mode: 3\n",
                b"\xff\xfe",
                b"\xfe\xff",
                b"\xef\xbb\xbf",
                b"\n",
                b"\r\n",
                b"//",
                b":",
                b",",
                b"|",
                b"9999999999",
                b"-",
                b"NaN",
            ];
            let mut v = Vec::new();
            while v.len() < len {
                v.extend_from_slice(frags[r.below(frags.len())]);
                if r.chance(1, 4) {
                    v.push(r.next() as u8);
                }
            }
            v
        }
        _ => {
            // mostly ASCII text with occasional high bytes
            (0..len)
                .map(|_| {
                    if r.chance(1, 20) {
                        r.next() as u8
                    } else {
                        {
                            let a = b" \n,:|0123456789abcXYZ[]-.";
                            a[r.below(a.len())]
                        }
                    }
                })
                .collect()
        }
    }
}

// ------------------------------------------------------------------ mutation

pub fn mutate(r: &mut Rng, base: &[u8], other: &[u8]) -> Vec<u8> {
    let mut v = base.to_vec();
    let rounds = 1 + r.below(4);
    for _ in 0..rounds {
        if v.is_empty() {
            v.extend_from_slice(b"[HitObjects]\n");
        }
        match r.below(9) {
            0 => {
                // byte flips
                for _ in 0..1 + r.below(4) {
                    let i = r.below(v.len());
                    v[i] ^= 1 << r.below(8);
                }
            }
            1 => {
                // random byte overwrite
                let i = r.below(v.len());
                v[i] = r.next() as u8;
            }
            2 | 3 | 4 | 5 => {
                // line-level: swap / delete / duplicate / field replacement
                let mut lines: Vec<Vec<u8>> = v.split(|b| *b == b'\n').map(<[u8]>::to_vec).collect();
                if lines.len() < 2 {
                    continue;
                }
                let i = r.below(lines.len());
                let j = r.below(lines.len());
                match r.below(4) {
                    0 => lines.swap(i, j),
                    1 => {
                        lines.remove(i);
                    }
                    2 => {
                        let l = lines[i].clone();
                        lines.insert(j, l);
                    }
                    _ => {
                        let sep = if lines[i].contains(&b',') { b',' } else { b':' };
                        let mut f: Vec<Vec<u8>> = lines[i].split(|b| *b == sep).map(<[u8]>::to_vec).collect();
                        let k = r.below(f.len());
                        match r.below(4) {
                            0 => f[k] = r.pick(osu::HOSTILE_NUMS).as_bytes().to_vec(),
                            1 => f[k].extend_from_slice(r.pick(osu::HOSTILE_NUMS).as_bytes()),
                            2 => {
                                f.truncate(k.max(1));
                            }
                            _ => {
                                if k + 1 < f.len() {
                                    f.swap(k, k + 1);
                                }
                            }
                        }
                        lines[i] = f.join(&sep);
                    }
                }
                v = lines.join(&b'\n');
            }
            6 => {
                // splice with another file
                if other.is_empty() {
                    continue;
                }
                let a = r.below(v.len() + 1);
                let b = r.below(other.len() + 1);
                let c = (b + r.below(2048)).min(other.len());
                let mut n = v[..a].to_vec();
                n.extend_from_slice(&other[b..c]);
                n.extend_from_slice(&v[a..]);
                v = n;
            }
            7 => {
                // truncate
                let a = r.below(v.len() + 1);
                v.truncate(a);
            }
            _ => {
                // insert structural bytes
                let a = r.below(v.len() + 1);
                let ins: &[u8] = [&b"\n"[..], b"\r\n", b"|", b",", b":", b"//", b"[", b"]", b"\0", b"\xff", b"-", b"9"][r.below(12)];
                let mut n = v[..a].to_vec();
                n.extend_from_slice(ins);
                n.extend_from_slice(&v[a..]);
                v = n;
            }
        }
        if v.len() > 96 * 1024 {
            v.truncate(96 * 1024);
        }
    }
    v
}

// ------------------------------------------------------------------ encodings

#[derive(Clone, Copy, Debug, PartialEq, Eq)]
pub enum Enc {
    Utf8,
    Utf8Bom,
    Utf16Le,
    Utf16Be,
}

pub const ENCS: [Enc; 4] = [Enc::Utf8, Enc::Utf8Bom, Enc::Utf16Le, Enc::Utf16Be];

impl Enc {
    pub fn name(self) -> &'static str {
        match self {
            Enc::Utf8 => "utf8",
            Enc::Utf8Bom => "utf8-bom",
            Enc::Utf16Le => "utf16le-bom",
            Enc::Utf16Be => "utf16be-bom",
        }
    }
}

/// Text without a leading U+FEFF (a source text that itself starts with a BOM character is
/// not "the same text" once a second BOM is prepended; only the first BOM is sniffed).
pub fn strip_bom_char(text: &str) -> &str {
    text.strip_prefix('\u{feff}').unwrap_or(text)
}

pub fn transcode(text: &str, enc: Enc) -> Vec<u8> {
    match enc {
        Enc::Utf8 => text.as_bytes().to_vec(),
        Enc::Utf8Bom => {
            let mut v = vec![0xEF, 0xBB, 0xBF];
            v.extend_from_slice(text.as_bytes());
            v
        }
        Enc::Utf16Le => {
            let mut v = vec![0xFF, 0xFE];
            for u in text.encode_utf16() {
                v.extend_from_slice(&u.to_le_bytes());
            }
            v
        }
        Enc::Utf16Be => {
            let mut v = vec![0xFE, 0xFF];
            for u in text.encode_utf16() {
                v.extend_from_slice(&u.to_be_bytes());
            }
            v
        }
    }
}

pub fn units_to_bytes(units: &[u16], enc: Enc) -> Vec<u8> {
    let mut v = match enc {
        Enc::Utf16Le => vec![0xFF, 0xFE],
        _ => vec![0xFE, 0xFF],
    };
    for u in units {
        if enc == Enc::Utf16Le {
            v.extend_from_slice(&u.to_le_bytes());
        } else {
            v.extend_from_slice(&u.to_be_bytes());
        }
    }
    v
}

/// A UTF-8 text is "plain" for BOM purposes when, as raw bytes, it does not start with
/// something the sniffer would take for a BOM.
pub fn starts_like_bom(bytes: &[u8]) -> bool {
    bytes.starts_with(&[0xEF, 0xBB, 0xBF]) || bytes.starts_with(&[0xFF, 0xFE]) || bytes.starts_with(&[0xFE, 0xFF])
}

// ------------------------------------------------------------------ schedules

#[derive(Clone, Debug)]
pub struct Schedule {
    pub sizes: Vec<usize>,
    pub interrupts: Vec<u64>,
}

impl Schedule {
    pub fn describe(&self) -> String {
        let s: Vec<String> = self.sizes.iter().take(12).map(|x| x.to_string()).collect();
        format!(
            "sizes[{}{}] interrupts{:?}",
            s.join(","),
            if self.sizes.len() > 12 { ",…" } else { "" },
            &self.interrupts[..self.interrupts.len().min(8)]
        )
    }
}

pub fn random_schedule(r: &mut Rng, with_interrupts: bool) -> Schedule {
    let n = 1 + r.below(24);
    let sizes = (0..n)
        .map(|_| match r.below(5) {
            0 => 1,
            1 => 1 + r.below(3),
            2 => 1 + r.below(16),
            3 => 1 + r.below(200),
            _ => 1 + r.below(5000),
        })
        .collect();
    let interrupts = if with_interrupts {
        (0..r.below(6)).map(|_| 1 + r.below(60) as u64).collect()
    } else {
        Vec::new()
    };
    Schedule { sizes, interrupts }
}
