//! G_osu: grammar-based generator of `.osu` texts with a structured description.

use crate::util::Rng;

#[derive(Clone, Debug)]
pub struct Cfg {
    /// 0 clean, 1 unusual-but-accepted spellings, 2 arbitrary hostile tokens and garbage lines
    pub hostile: u8,
    /// timing-point and hit-object lines in chronological order
    pub chrono: bool,
    /// integer times only
    pub int_times: bool,
    pub mode: Option<u8>,
    /// added to every time written (object, control point, break, bookmark-free)
    pub shift: i64,
    pub max_objects: usize,
    pub max_tp: usize,
    /// write every key of every key/value section
    pub all_keys: bool,
    /// sections in random order / repeated, blank and comment lines sprinkled in
    pub scramble: bool,
    /// non-ASCII and punctuation-heavy metadata
    pub exotic_text: bool,
    /// control points placed exactly on / 5 ms around object ends and nodes
    pub near_object_points: bool,
    /// distinct times closer than f64::EPSILON (0 and 5e-324, 0.5 and its successor) among objects and control points
    pub near_times: bool,
}

impl Default for Cfg {
    fn default() -> Self {
        Self {
            hostile: 0,
            chrono: true,
            int_times: false,
            mode: None,
            shift: 0,
            max_objects: 10,
            max_tp: 8,
            all_keys: true,
            scramble: false,
            exotic_text: true,
            near_object_points: false,
            near_times: false,
        }
    }
}

#[derive(Clone, Copy, Debug, PartialEq, Eq)]
pub enum Kind {
    Version,
    Header,
    Record,
    Filler,
}

#[derive(Clone, Debug)]
pub struct GLine {
    /// section index 0..=10 (recorder numbering) or 255 outside any section
    pub sec: u8,
    pub kind: Kind,
    pub text: String,
}

#[derive(Clone, Debug, Default)]
pub struct GenMap {
    pub lines: Vec<GLine>,
    pub mode: u8,
    pub version: i32,
}

impl GenMap {
    pub fn text(&self) -> String {
        let mut s = String::new();
        for l in &self.lines {
            s.push_str(&l.text);
            s.push('\n');
        }
        s
    }

    pub fn text_with(&self, eol: &str, final_eol: bool) -> String {
        let mut s = String::new();
        for (i, l) in self.lines.iter().enumerate() {
            s.push_str(&l.text);
            if i + 1 < self.lines.len() || final_eol {
                s.push_str(eol);
            }
        }
        s
    }

    pub fn record_indices(&self, sec: u8) -> Vec<usize> {
        self.lines
            .iter()
            .enumerate()
            .filter(|(_, l)| l.sec == sec && l.kind == Kind::Record)
            .map(|(i, _)| i)
            .collect()
    }
}

pub const HOSTILE_NUMS: &[&str] = &[
    "2147483647",
    "2147483648",
    "-2147483647",
    "-2147483648",
    "131072",
    "131073",
    "-131072",
    "-131073",
    "9000",
    "9001",
    "1e999",
    "-1e999",
    "NaN",
    "nan",
    "inf",
    "-inf",
    "infinity",
    "-0",
    "1e-320",
    "",
    " ",
    "+5",
    " 7 ",
    "0x10",
    "1_000",
    "１２",
    "1.5",
    "-1",
    "99999999999999999999",
    "4294967297",
    "1e10",
    "0.1e1",
    ".",
    "-",
    "e5",
    "1e",
    "0",
    "1",
    "00",
    "3.4028236e38",
    "1.7976931348623157e308",
    "4.9e-324",
    "\u{0}",
    "5\t",
    "\"5\"",
    "5;",
    "५",
];

pub fn fmt_time(t: f64) -> String {
    format!("{t}")
}

/// integer with optional accepted decoration (level >= 1) or hostile replacement (level 2)
pub fn num_i(v: i64, r: &mut Rng, hostile: u8) -> String {
    if hostile >= 2 && r.chance(1, 12) {
        return (*r.pick(HOSTILE_NUMS)).to_string();
    }
    if hostile >= 1 && r.chance(1, 10) {
        return match r.below(4) {
            0 if v >= 0 => format!("+{v}"),
            1 => format!(" {v}"),
            2 => format!("{v} "),
            _ => {
                if v >= 0 {
                    format!("00{v}")
                } else {
                    format!("{v}")
                }
            }
        };
    }
    format!("{v}")
}

/// float with optional accepted decoration or hostile replacement
pub fn num_f(v: f64, r: &mut Rng, hostile: u8) -> String {
    if hostile >= 2 && r.chance(1, 12) {
        return (*r.pick(HOSTILE_NUMS)).to_string();
    }
    if hostile >= 1 && r.chance(1, 10) {
        return match r.below(5) {
            0 if v >= 0.0 => format!("+{v}"),
            1 => format!(" {v} "),
            2 => format!("{v:e}"),
            3 if v.fract() == 0.0 && v.abs() < 1e15 => format!("{v:.1}"),
            _ => format!("{v}"),
        };
    }
    format!("{v}")
}

const WORDS: &[&str] = &[
    "Renatus",
    "Soleily",
    "Re:Zero",
    "a:b:c",
    "//comment-like",
    "x // y",
    "[General]",
    "osu file format v9",
    "\"quoted\"",
    "semi;colon",
    "comma,separated",
    "tab\tinside",
    "naïve",
    "上海アリス",
    "Ünïcödé",
    "🎵 emoji",
    "a|b",
    "Key: Value",
    "100%",
    "back\\slash",
    "'single'",
    "",
    "0",
    "-1",
    "trailing.",
    "MiXeD CaSe",
    "\u{feff}bom-inside",
    "zero\u{200b}width",
    "한국어",
    "x=y",
    "#hash",
    "(paren)",
    "{brace}",
    "<angle>",
    "@at",
    "&amp;",
    "long long long long long long long long long long title",
];

pub fn text_value(r: &mut Rng, exotic: bool) -> String {
    if !exotic {
        return ["Title", "Artist Name", "Someone", "Hard", "anime", "tag1 tag2"][r.below(6)].to_string();
    }
    let n = 1 + r.below(3);
    let mut parts = Vec::new();
    for _ in 0..n {
        parts.push(*r.pick(WORDS));
    }
    parts.join(" ").trim().to_string()
}

pub fn file_name(r: &mut Rng, hostile: u8) -> String {
    let base = [
        "audio.mp3",
        "a b.mp3",
        "bg.jpg",
        "dir/sub/file.png",
        "dir\\win\\file.png",
        "UPPER.JPG",
        "video.mp4",
        "clip.AVI",
        "noext",
        "x.y.z.ogg",
        "ünï.png",
        "背景.jpg",
        "ab",
        "a",
        "sb/sprite.png",
        "видео",
        "日a",
        "背景",
        "naïve",
        "é",
        "ab日",
        "x.日本",
        "clip.mpé",
        "🎵",
        "a🎵",
    ];
    let mut s = (*r.pick(&base)).to_string();
    if hostile >= 2 && r.chance(1, 8) {
        s = [
            "a//b.png",
            "dir\\\\file.png",
            "\"\"",
            "\"q\"uote\".png",
            "a,b.png",
            " spaced .png ",
            "",
            "a\\\\\\\\b.jpg",
            "x\"",
            "tab\t.png",
        ][r.below(10)]
        .to_string();
    }
    s
}

pub const GENERAL_KEYS: &[&str] = &[
    "AudioFilename",
    "AudioLeadIn",
    "PreviewTime",
    "SampleSet",
    "SampleVolume",
    "StackLeniency",
    "Mode",
    "LetterboxInBreaks",
    "SpecialStyle",
    "WidescreenStoryboard",
    "EpilepsyWarning",
    "SamplesMatchPlaybackRate",
    "Countdown",
    "CountdownOffset",
];
pub const EDITOR_KEYS: &[&str] = &["Bookmarks", "DistanceSpacing", "BeatDivisor", "GridSize", "TimelineZoom"];
pub const METADATA_KEYS: &[&str] = &[
    "Title",
    "TitleUnicode",
    "Artist",
    "ArtistUnicode",
    "Creator",
    "Version",
    "Source",
    "Tags",
    "BeatmapID",
    "BeatmapSetID",
];
pub const DIFFICULTY_KEYS: &[&str] = &[
    "HPDrainRate",
    "CircleSize",
    "OverallDifficulty",
    "ApproachRate",
    "SliderMultiplier",
    "SliderTickRate",
];

fn kv(r: &mut Rng, key: &str, value: &str, hostile: u8) -> String {
    if hostile >= 1 {
        match r.below(8) {
            0 => return format!("{key}:{value}"),
            1 => return format!("{key} : {value}"),
            2 => return format!("{key}:  {value}  "),
            3 => return format!("  {key}: {value}"),
            _ => {}
        }
    }
    format!("{key}: {value}")
}

pub fn general_value(r: &mut Rng, key: &str, mode: u8, cfg: &Cfg) -> String {
    let h = cfg.hostile;
    match key {
        "AudioFilename" => file_name(r, h),
        "AudioLeadIn" => num_i(*r.pick(&[0, 500, 2000, -100, 1]), r, h),
        "PreviewTime" => num_i(*r.pick(&[-1, 0, 12345, 164471, 2147483647]), r, h),
        "SampleSet" => {
            if h >= 2 && r.chance(1, 6) {
                ["4", "normal", "", "None ", "Drum//x", "-1"][r.below(6)].to_string()
            } else {
                ["Normal", "Soft", "Drum", "None", "0", "1", "2", "3"][r.below(8)].to_string()
            }
        }
        "SampleVolume" => num_i(*r.pick(&[100, 0, 50, 75, 101, -5]), r, h),
        "StackLeniency" => num_f(*r.pick(&[0.7, 0.5, 1.0, 0.0, 0.25, 0.3]), r, h),
        "Mode" => {
            if h >= 2 && r.chance(1, 8) {
                ["4", "-1", "", "osu", "1.0", " 2"][r.below(6)].to_string()
            } else {
                format!("{mode}")
            }
        }
        "LetterboxInBreaks" | "SpecialStyle" | "WidescreenStoryboard" | "EpilepsyWarning"
        | "SamplesMatchPlaybackRate" => num_i(*r.pick(&[0, 1, 1, 0, 2, -1]), r, h),
        "Countdown" => {
            if h >= 2 && r.chance(1, 6) {
                ["4", "Half Speed", "", "-1", "normal"][r.below(5)].to_string()
            } else {
                ["0", "1", "2", "3", "None", "Normal", "Half speed", "Double speed"][r.below(8)].to_string()
            }
        }
        _ => num_i(*r.pick(&[0, 1, 5, -3, 100]), r, h),
    }
}

pub fn editor_value(r: &mut Rng, key: &str, cfg: &Cfg) -> String {
    let h = cfg.hostile;
    match key {
        "Bookmarks" => {
            let n = r.below(6);
            let mut v = Vec::new();
            let mut t = 0i64;
            for _ in 0..n {
                t += r.range(0, 50000);
                v.push(if h >= 2 && r.chance(1, 10) {
                    (*r.pick(HOSTILE_NUMS)).to_string()
                } else {
                    format!("{t}")
                });
            }
            v.join(",")
        }
        "DistanceSpacing" => num_f(*r.pick(&[1.0, 0.8, 1.22, 2.0, 0.1, 6.0]), r, h),
        "BeatDivisor" => num_i(*r.pick(&[4, 1, 2, 3, 6, 8, 12, 16]), r, h),
        "GridSize" => num_i(*r.pick(&[4, 8, 16, 32, 0]), r, h),
        _ => num_f(*r.pick(&[1.0, 2.0, 0.5, 3.1, 0.1]), r, h),
    }
}

pub fn metadata_value(r: &mut Rng, key: &str, cfg: &Cfg) -> String {
    match key {
        "BeatmapID" | "BeatmapSetID" => num_i(*r.pick(&[0, -1, 123456, 1, 2147483647, -5, 557821]), r, cfg.hostile),
        _ => text_value(r, cfg.exotic_text),
    }
}

pub fn difficulty_value(r: &mut Rng, key: &str, cfg: &Cfg) -> String {
    let h = cfg.hostile;
    match key {
        "SliderMultiplier" => num_f(*r.pick(&[1.4, 0.4, 3.6, 2.0, 1.0, 0.1, 5.0, 1.7999999523162842]), r, h),
        "SliderTickRate" => num_f(*r.pick(&[1.0, 2.0, 0.5, 4.0, 8.0, 0.25, 9.0, 3.0]), r, h),
        _ => num_f(*r.pick(&[5.0, 0.0, 10.0, 9.3, 3.5, 7.0, 11.0, -1.0, 6.6]), r, h),
    }
}

pub fn event_line(r: &mut Rng, cfg: &Cfg, t0: f64) -> String {
    let h = cfg.hostile;
    let t = |v: f64| fmt_time(v + cfg.shift as f64);
    match r.below(if h >= 2 { 12 } else { 8 }) {
        0 | 1 => format!("0,0,\"{}\",0,0", file_name(r, h)),
        2 => format!("Video,0,\"{}\"", file_name(r, h)),
        3 => format!("4,Background,Centre,\"{}\",320,240", file_name(r, h)),
        4 | 5 | 6 => {
            let a = t0 + r.range(0, 20000) as f64;
            let b = a + r.range(-200, 5000) as f64;
            format!("2,{},{}", t(a), t(b))
        }
        7 => ["3,100,163,162,255", "5,1,0,\"a.wav\",50", "6,a,b,c", "Sample,1,0,x"][r.below(4)].to_string(),
        8 => format!("2,{},{}", r.pick(HOSTILE_NUMS), r.pick(HOSTILE_NUMS)),
        9 => format!("{},0,x.png", r.pick(&["9", "", "Break", "background", "-1", "1.0"])),
        10 => "0,0".to_string(),
        _ => format!("1,{},\"{}\"", r.pick(HOSTILE_NUMS), file_name(r, h)),
    }
}

pub fn color_line(r: &mut Rng, cfg: &Cfg, combo_idx: &mut usize) -> String {
    let h = cfg.hostile;
    let comp = |r: &mut Rng| {
        if h >= 2 && r.chance(1, 8) {
            ["256", "-1", "", "x", "1.5", " 7 ", "+3", "255"][r.below(8)].to_string()
        } else {
            format!("{}", r.below(256))
        }
    };
    let name = if r.chance(2, 3) {
        *combo_idx += 1;
        format!("Combo{combo_idx}")
    } else {
        ["SliderBorder", "SliderTrackOverride", "MyColour", "Combo", "Comboxyz", "Couleur é", "色", "Comboé"][r.below(8)].to_string()
    };
    let n = if h >= 2 { [3, 3, 4, 2, 5][r.below(5)] } else { [3, 3, 4][r.below(3)] };
    let comps: Vec<String> = (0..n).map(|_| comp(r)).collect();
    let sep = if h >= 1 && r.chance(1, 6) { " , " } else { "," };
    format!("{name} : {}", comps.join(sep))
}

pub fn bank_info(r: &mut Rng, h: u8) -> String {
    let b = |r: &mut Rng| {
        if h >= 2 && r.chance(1, 10) {
            (*r.pick(&["4", "-1", "9", "", "x", "2147483648", "-2147483648"])).to_string()
        } else {
            format!("{}", r.below(4))
        }
    };
    match r.below(8) {
        0 => String::new(),
        1 => "0:0:0:0:".into(),
        2 => format!("{}:{}:0:0:", b(r), b(r)),
        3 => format!("{}:{}:{}:{}:", b(r), b(r), num_i(if h >= 1 && r.chance(1, 8) { -r.range(1, 5) } else { r.range(0, 4) }, r, h), num_i(*r.pick(&[0, 50, 100, 30, 101, -3]), r, h)),
        4 => format!(
            "{}:{}:{}:{}:{}",
            b(r),
            b(r),
            r.range(-2, 3),
            r.below(101),
            ["a.wav", "", "b c.ogg", "dir/x.wav", "x:y.wav", "音.wav", "é", "日a", "sfx\\hit_1.wav", "a\\b/c.ogg", "UPPER.WAV", "x,y.wav", "\"q\".wav", "a|b.wav"][r.below(14)]
        ),
        5 => format!("{}:{}", b(r), b(r)),
        6 => format!("{}:{}:{}", b(r), b(r), r.below(4)),
        _ => {
            if h >= 2 {
                format!("{}", b(r))
            } else {
                format!("{}:{}:0:0:", b(r), b(r))
            }
        }
    }
}

const LETTERS: &[&str] = &["B", "L", "P", "C", "B3", "B1"];
const LETTERS_HOSTILE: &[&str] = &["B", "L", "P", "C", "B3", "B0", "Bx", "X", "b", "B-2", "B2147483647", "PC", "l"];

/// Path string for a slider at (x,y). `avoid_cc`: never two consecutive explicit Catmull segments.
pub fn path_string(r: &mut Rng, x: i64, y: i64, h: u8, max_pts: usize) -> String {
    let letters = if h >= 2 { LETTERS_HOSTILE } else { LETTERS };
    if h >= 1 && r.chance(1, 40) {
        // a perfect-curve segment through an almost collinear triple far from the slider: the determinant of
        // the differences is a small integer while the circumcircle terms cancel in single precision
        fn egcd(a: i64, b: i64) -> (i64, i64, i64) {
            if b == 0 {
                (a, 1, 0)
            } else {
                let (g, s, t) = egcd(b, a % b);
                (g, t, s - (a / b) * t)
            }
        }
        let far = |r: &mut Rng| if r.chance(1, 2) { r.range(60_000, 128_000) } else { -r.range(60_000, 128_000) };
        let (fx, fy) = (far(r), far(r));
        let (pp, qq) = (r.range(500, 1500), r.range(50, 300));
        let (_, s, t) = egcd(pp, qq);
        let m = 2 + r.below(2) as i64;
        let k = [-3i64, -2, -1, 1, 2, 3][r.below(6)];
        return format!("L|P|{fx}:{fy}|{}:{}|{}:{}", fx + pp, fy + qq, fx + m * pp - k * t, fy + m * qq + k * s);
    }
    let mut p = String::from(*r.pick(letters));
    // occasionally a lone type token: a slider whose only control point is its position
    let n = if r.chance(1, 12) { 0 } else { 1 + r.below(max_pts.max(1)) };
    let mut last = (x, y);
    let collinear = r.chance(1, 8);
    let big = r.chance(1, 30);
    for i in 0..n {
        match r.below(14) {
            0 => {
                p.push('|');
                p.push_str(*r.pick(letters));
                if r.chance(1, 2) {
                    continue;
                }
            }
            1 => {
                // duplicate point: segment split by repetition
                p.push_str(&format!("|{}:{}", last.0, last.1));
                continue;
            }
            2 if h >= 2 => {
                p.push('|');
                p.push_str(*r.pick(&["", "1", "1:", ":1", "a:b", "1:2:3", "131073:0", "1.7:2.2", "NaN:0", "-131072:131072", "1e3:5", " 4 : 5 "]));
                continue;
            }
            3 if i == 0 => {
                // second point equal to the position
                p.push_str(&format!("|{x}:{y}"));
                last = (x, y);
                continue;
            }
            _ => {}
        }
        last = if collinear {
            (last.0 + 20, last.1 + 10)
        } else if big {
            (r.range(-100000, 100000), r.range(-100000, 100000))
        } else {
            (r.range(-50, 600), r.range(-50, 450))
        };
        p.push_str(&format!("|{}:{}", last.0, last.1));
    }
    p
}

pub struct ObjGen {
    pub line: String,
    /// 0 circle, 1 slider, 2 spinner, 3 hold
    pub kind: u8,
}

pub fn hit_object_line(r: &mut Rng, cfg: &Cfg, mode: u8, time: f64) -> ObjGen {
    let h = cfg.hostile;
    let ts = |v: f64| fmt_time(v + cfg.shift as f64);
    let x = r.range(0, 512);
    let y = r.range(0, 384);
    let xs = if h >= 2 && r.chance(1, 15) {
        (*r.pick(HOSTILE_NUMS)).to_string()
    } else if h >= 1 && r.chance(1, 10) {
        format!("{}.{}", x, r.below(10))
    } else {
        format!("{x}")
    };
    let ys = if h >= 2 && r.chance(1, 15) {
        (*r.pick(HOSTILE_NUMS)).to_string()
    } else {
        format!("{y}")
    };
    let t = if h >= 2 && r.chance(1, 20) {
        (*r.pick(HOSTILE_NUMS)).to_string()
    } else {
        ts(time)
    };
    let nc = if r.chance(1, 3) { 4 } else { 0 };
    let co = if r.chance(1, 4) { (r.below(8) as i64) << 4 } else { 0 };
    let kind = match r.below(if mode == 3 { 10 } else { 8 }) {
        0..=2 => 0u8,
        3..=5 => 1,
        6..=7 => 2,
        _ => 3,
    };
    let base = [1i64, 2, 8, 128][kind as usize];
    // `ty_val`: the numeric type when it is known (None for garbage tokens)
    let (ty, ty_val): (String, Option<i64>) = if h >= 2 && r.chance(1, 12) {
        if r.chance(1, 2) {
            let v = r.below(256) as i64;
            (format!("{v}"), Some(v))
        } else {
            ((*r.pick(&["", "x", "-1", "256", "1.0", "2147483648", " 1", "-2147483648"])).to_string(), None)
        }
    } else if h >= 1 && r.chance(1, 20) {
        // extra kind bits: precedence circle > slider > spinner > hold decides
        let v = base | nc | co | [8i64, 128, 2, 1][r.below(4)];
        (format!("{v}"), Some(v))
    } else {
        (format!("{}", base | nc | co), Some(base | nc | co))
    };
    // the kind the parser will see; a kind-specific *time* field is a time only if the parser reads it as one
    // (a hold's end time in a line that is parsed as a circle is bank info, not a time, and must not be shifted)
    let eff_kind = match ty_val {
        Some(v) if v & 1 != 0 => 0u8,
        Some(v) if v & 2 != 0 => 1,
        Some(v) if v & 8 != 0 => 2,
        Some(v) if v & 128 != 0 => 3,
        _ => kind,
    };
    let ts_if = |v: f64, is_time: bool| if is_time { fmt_time(v + cfg.shift as f64) } else { fmt_time(v) };
    // the kind the line is formatted for stays `kind`; the flags may say otherwise in hostile mode
    let snd = if h >= 2 && r.chance(1, 12) {
        (*r.pick(&["", "x", "-1", "256", "16", "255", "2147483648", "1.0", "-2147483648"])).to_string()
    } else {
        format!("{}", r.below(16))
    };
    let mut line = format!("{xs},{ys},{t},{ty},{snd}");
    match kind {
        0 => {
            if r.chance(3, 4) {
                line.push(',');
                line.push_str(&bank_info(r, h));
            }
        }
        1 => {
            let p = path_string(r, x, y, h, 6);
            line.push(',');
            line.push_str(&p);
            let rep = if h >= 2 && r.chance(1, 10) {
                (*r.pick(&["0", "-1", "9000", "9001", "", "x", "2147483648", "1.5", "-2147483648", "-2147483647"])).to_string()
            } else if r.chance(1, 40) {
                format!("{}", 5 + r.below(40))
            } else {
                format!("{}", 1 + r.below(4))
            };
            line.push(',');
            line.push_str(&rep);
            let extra = r.below(5);
            if extra >= 1 {
                line.push(',');
                let l = match r.below(8) {
                    0 => format!("{}", r.f() * 300.0),
                    1 => "0".to_string(),
                    2 if h >= 2 => (*r.pick(HOSTILE_NUMS)).to_string(),
                    3 => format!("{}", 1 + r.below(5)),
                    4 if h >= 1 => format!("{}", -(r.below(50) as i64)),
                    _ => format!("{}", 10 + r.below(400)),
                };
                line.push_str(&l);
            }
            let nodes = rep.trim().parse::<usize>().unwrap_or(1).min(60) + 1;
            if extra >= 2 {
                line.push(',');
                let k = if r.chance(1, 5) { r.below(5) } else { nodes };
                line.push_str(
                    &(0..k)
                        .map(|_| {
                            if h >= 2 && r.chance(1, 10) {
                                "x".to_string()
                            } else {
                                format!("{}", r.below(16))
                            }
                        })
                        .collect::<Vec<_>>()
                        .join("|"),
                );
            }
            if extra >= 3 {
                line.push(',');
                let k = if r.chance(1, 5) { r.below(5) } else { nodes };
                line.push_str(
                    &(0..k)
                        .map(|_| format!("{}:{}", r.below(4), r.below(4)))
                        .collect::<Vec<_>>()
                        .join("|"),
                );
            }
            if extra >= 4 {
                line.push(',');
                line.push_str(&bank_info(r, h));
            }
        }
        2 => {
            if h < 2 || r.chance(9, 10) {
                line.push(',');
                let e = if h >= 2 && r.chance(1, 8) {
                    (*r.pick(HOSTILE_NUMS)).to_string()
                } else {
                    ts_if(time + r.range(-100, 3000) as f64, eff_kind >= 2)
                };
                line.push_str(&e);
                if r.chance(1, 2) {
                    line.push(',');
                    line.push_str(&bank_info(r, h));
                }
            }
        }
        _ => {
            if r.chance(4, 5) {
                line.push(',');
                if h >= 2 && r.chance(1, 8) {
                    line.push_str(*r.pick(HOSTILE_NUMS));
                } else {
                    line.push_str(&ts_if(time + r.range(-100, 2000) as f64, eff_kind >= 2));
                }
                if r.chance(2, 3) {
                    line.push(':');
                    line.push_str(&bank_info(r, h));
                }
            }
        }
    }
    if h >= 1 && r.chance(1, 40) {
        line.push_str(" // c");
    }
    ObjGen { line, kind }
}

pub fn timing_line(r: &mut Rng, cfg: &Cfg, time: f64, force_timing: bool) -> String {
    let h = cfg.hostile;
    let timing = force_timing || r.chance(1, 3);
    let bl: String = if h >= 2 && r.chance(1, 10) {
        (*r.pick(HOSTILE_NUMS)).to_string()
    } else if timing {
        let v = *r.pick(&[500.0, 333.33, 250.0, 1000.0, 5.0, 70000.0, 461.538461538462, 0.0, 6.0, 60000.0]);
        num_f(v, r, h.min(1))
    } else {
        let v = *r.pick(&[
            -100.0,
            -50.0,
            -200.0,
            -1000.0,
            -10.0,
            -5.0,
            -20000.0,
            -133.33333,
            -83.3333333333333,
            -66.6666666666667,
            -2000.0,
            -1.0e9,
            -0.00001,
            -1e-250,
            -0.5,
        ]);
        if h >= 1 && r.chance(1, 25) {
            "NaN".to_string()
        } else {
            num_f(v, r, h.min(1))
        }
    };
    let t = if h >= 2 && r.chance(1, 15) {
        (*r.pick(HOSTILE_NUMS)).to_string()
    } else {
        fmt_time(time + cfg.shift as f64)
    };
    let sig = if h >= 2 && r.chance(1, 10) {
        (*r.pick(&["0", "-4", "", "x", "04", "2147483648", "0x", "-2147483648"])).to_string()
    } else {
        format!("{}", [4, 3, 7, 4, 5][r.below(5)])
    };
    let bank = if h >= 2 && r.chance(1, 10) {
        (*r.pick(&["9", "-1", "", "x", "2147483648", "-2147483648"])).to_string()
    } else {
        format!("{}", r.below(4))
    };
    let custom = if h >= 2 && r.chance(1, 10) {
        (*r.pick(&["-5", "2147483647", "", "x", "2147483648", "-2147483648"])).to_string()
    } else {
        format!("{}", [0, 0, 1, 2, 3][r.below(5)])
    };
    let vol = if h >= 2 && r.chance(1, 10) {
        (*r.pick(&["-5", "150", "", "x"])).to_string()
    } else {
        format!("{}", [100, 50, 0, 80, 5][r.below(5)])
    };
    let tc = if h >= 2 && r.chance(1, 10) {
        (*r.pick(&["", "2", "10", "01", "x", "true"])).to_string()
    } else {
        format!("{}", u8::from(timing))
    };
    let fx = if h >= 2 && r.chance(1, 10) {
        (*r.pick(&["", "x", "-1", "255", "1.0", " 1"])).to_string()
    } else {
        format!("{}", [0, 1, 8, 9, 0][r.below(5)])
    };
    let fields = [t, bl, sig, bank, custom, vol, tc, fx];
    let keep = if (h >= 1 && r.chance(1, 8)) || (h >= 2 && r.chance(1, 6)) {
        if h >= 2 {
            1 + r.below(8)
        } else {
            2 + r.below(7)
        }
    } else {
        8
    };
    fields[..keep].join(",")
}

/// Generate a whole map.
pub fn gen_map(r: &mut Rng, cfg: &Cfg) -> GenMap {
    let mode = cfg.mode.unwrap_or_else(|| r.below(4) as u8);
    let version: i32 = *r.pick(&[14, 14, 14, 14, 5, 7, 8, 9, 10, 12, 128, 3, 4, 6]);
    let mut g = GenMap {
        lines: Vec::new(),
        mode,
        version,
    };
    let h = cfg.hostile;

    let vline = if h >= 2 && r.chance(1, 10) {
        [
            "osu file format v",
            "osu file format vx",
            "osu file format v14 // c",
            " osu file format v14",
            "osu file format v2147483648",
            "osu file format v-3",
            "file format v14",
            "",
        ][r.below(8)]
        .to_string()
    } else {
        format!("osu file format v{version}")
    };
    if !(h >= 2 && r.chance(1, 20)) {
        g.lines.push(GLine { sec: 255, kind: Kind::Version, text: vline });
    }

    // section bodies -------------------------------------------------------
    let mut bodies: Vec<(u8, Vec<String>)> = Vec::new();

    // General
    let mut b = Vec::new();
    for k in GENERAL_KEYS {
        if cfg.all_keys || r.chance(1, 2) || *k == "Mode" {
            let v = general_value(r, k, mode, cfg);
            b.push(kv(r, k, &v, h));
        }
    }
    bodies.push((0, b));

    let mut b = Vec::new();
    for k in EDITOR_KEYS {
        if cfg.all_keys || r.chance(1, 2) {
            let v = editor_value(r, k, cfg);
            b.push(kv(r, k, &v, h));
        }
    }
    bodies.push((1, b));

    let mut b = Vec::new();
    for k in METADATA_KEYS {
        if cfg.all_keys || r.chance(1, 2) {
            let v = metadata_value(r, k, cfg);
            b.push(kv(r, k, &v, h));
        }
    }
    bodies.push((2, b));

    let mut b = Vec::new();
    let mut dk: Vec<&str> = DIFFICULTY_KEYS.to_vec();
    if r.chance(1, 3) {
        dk.swap(2, 3); // AR before OD
    }
    for k in dk {
        if cfg.all_keys || r.chance(2, 3) {
            let v = difficulty_value(r, k, cfg);
            b.push(kv(r, k, &v, h));
        }
    }
    bodies.push((3, b));

    // object times first (control points may be placed relative to them)
    let n_obj = if cfg.max_objects == 0 { 0 } else { r.below(cfg.max_objects + 1) };
    let mut obj_times: Vec<f64> = Vec::new();
    let mut t = if r.chance(1, 6) { -(r.below(300) as f64) } else { r.below(1000) as f64 };
    if cfg.near_times && r.chance(1, 2) {
        t = *r.pick(&[0.0, -0.0, 0.5, 5e-324]);
    }
    for _ in 0..n_obj {
        obj_times.push(t);
        if r.chance(4, 5) {
            t += (1 + r.below(4000)) as f64;
            if !cfg.int_times && r.chance(1, 5) {
                t += [0.25, 0.5, 0.333333, 0.1][r.below(4)];
            }
        }
    }

    // Events
    let mut b = Vec::new();
    let ne = r.below(5);
    let t0 = obj_times.first().copied().unwrap_or(0.0) - 2000.0;
    for _ in 0..ne {
        b.push(event_line(r, cfg, t0));
    }
    bodies.push((4, b));

    // TimingPoints
    let mut tps: Vec<(f64, String)> = Vec::new();
    let ntp = 1 + r.below(cfg.max_tp.max(1));
    let mut tt = if r.chance(1, 3) {
        -(r.below(500) as f64)
    } else {
        r.below(500) as f64
    };
    if cfg.near_times && r.chance(2, 3) {
        tt = *r.pick(&[0.0, -0.0, 0.5, 0.25, 5e-324, 1e-17]);
    }
    for i in 0..ntp {
        tps.push((tt, timing_line(r, cfg, tt, i == 0)));
        if cfg.near_times && tt.abs() < 1.0 && r.chance(1, 2) {
            // the next representable time: a different time, closer than any tolerance
            let up = if tt == 0.0 { 5e-324 } else if tt > 0.0 { f64::from_bits(tt.to_bits() + 1) } else { f64::from_bits(tt.to_bits() - 1) };
            let force = r.chance(1, 2);
            tps.push((up, timing_line(r, cfg, up, force)));
        }
        if r.chance(2, 3) {
            tt += (1 + r.below(3000)) as f64;
            if !cfg.int_times && r.chance(1, 4) {
                tt += 0.5;
            }
        }
    }
    if cfg.near_object_points {
        for &ot in obj_times.iter().take(6) {
            if r.chance(1, 2) {
                let d = *r.pick(&[0.0, 4.0, 5.0, 6.0, -5.0, 1000.0, 105.0]);
                let at = ot + d;
                tps.push((at, timing_line(r, cfg, at, false)));
            }
        }
    }
    if cfg.chrono {
        tps.sort_by(|a, b| a.0.partial_cmp(&b.0).unwrap());
    } else if r.chance(1, 2) && tps.len() > 1 {
        let (a, b) = (r.below(tps.len()), r.below(tps.len()));
        tps.swap(a, b);
    }
    bodies.push((5, tps.into_iter().map(|x| x.1).collect()));

    // Colours
    let mut b = Vec::new();
    let nc = r.below(6);
    let mut ci = 0;
    for _ in 0..nc {
        b.push(color_line(r, cfg, &mut ci));
    }
    bodies.push((6, b));

    // HitObjects
    let mut objs: Vec<String> = Vec::new();
    for &ot in &obj_times {
        objs.push(hit_object_line(r, cfg, mode, ot).line);
    }
    if !cfg.chrono && objs.len() > 1 {
        for _ in 0..1 + r.below(2) {
            let (a, b) = (r.below(objs.len()), r.below(objs.len()));
            objs.swap(a, b);
        }
    }
    bodies.push((7, objs));

    if h >= 1 && r.chance(1, 4) {
        bodies.push((8 + r.below(3) as u8, vec!["$a=1".to_string(), "x,y,z".to_string()]));
    }

    // assemble -------------------------------------------------------------
    if cfg.scramble {
        // random order, possibly split a section into two parts
        for i in (1..bodies.len()).rev() {
            let j = r.below(i + 1);
            bodies.swap(i, j);
        }
        if r.chance(1, 2) {
            let k = r.below(bodies.len());
            let (sec, body) = bodies[k].clone();
            if body.len() >= 2 {
                let cut = 1 + r.below(body.len() - 1);
                bodies[k].1.truncate(cut);
                bodies.push((sec, body[cut..].to_vec()));
            }
        }
    }

    use crate::obs::recorder::SECTION_NAMES;
    for (sec, body) in bodies {
        if cfg.scramble || r.chance(9, 10) {
            if r.chance(3, 4) {
                g.lines.push(GLine { sec: 255, kind: Kind::Filler, text: String::new() });
            }
        }
        g.lines.push(GLine {
            sec,
            kind: Kind::Header,
            text: format!("[{}]", SECTION_NAMES[sec as usize]),
        });
        for line in body {
            if cfg.scramble && r.chance(1, 12) {
                let f = ["", "// comment", "   ", "  // indented", "\t"][r.below(5)];
                g.lines.push(GLine { sec, kind: Kind::Filler, text: f.to_string() });
            }
            if h >= 2 && r.chance(1, 25) {
                let junk = [
                    "garbage",
                    "[Foo]",
                    ":::",
                    ",,,,,,,,",
                    "|||",
                    "\u{0}\u{0}",
                    "1,2,3,4,5,6,7,8,9,10,11,12",
                    "[general]",
                    " [HitObjects]",
                    "Key Value",
                    ":",
                ][r.below(11)];
                g.lines.push(GLine { sec, kind: Kind::Record, text: junk.to_string() });
            }
            g.lines.push(GLine { sec, kind: Kind::Record, text: line });
        }
    }
    g
}
