//! Event log recorded by the crate's own `tracing` instrumentation (feature
//! `tr` of the harness = feature `tracing` of rosu-map): one entry per
//! rejected line / failed version line, in the order the real driver loop
//! emitted them.

#[cfg(feature = "tr")]
mod imp {
    use std::cell::RefCell;
    use std::sync::atomic::{AtomicU64, Ordering};
    use tracing::{
        field::{Field, Visit},
        span, Event, Metadata, Subscriber,
    };

    thread_local! {
        static LOG: RefCell<Vec<String>> = const { RefCell::new(Vec::new()) };
    }

    struct Rec;
    struct V(String);

    impl Visit for V {
        fn record_debug(&mut self, f: &Field, v: &dyn std::fmt::Debug) {
            use std::fmt::Write;
            if f.name() == "message" {
                let _ = write!(self.0, "{v:?}");
            }
        }
    }

    static IDS: AtomicU64 = AtomicU64::new(1);

    impl Subscriber for Rec {
        fn enabled(&self, _: &Metadata<'_>) -> bool {
            true
        }
        fn new_span(&self, _: &span::Attributes<'_>) -> span::Id {
            span::Id::from_u64(IDS.fetch_add(1, Ordering::Relaxed))
        }
        fn record(&self, _: &span::Id, _: &span::Record<'_>) {}
        fn record_follows_from(&self, _: &span::Id, _: &span::Id) {}
        fn event(&self, e: &Event<'_>) {
            let mut v = V(String::new());
            e.record(&mut v);
            LOG.with(|l| l.borrow_mut().push(v.0));
        }
        fn enter(&self, _: &span::Id) {}
        fn exit(&self, _: &span::Id) {}
    }

    pub fn install() {
        let _ = tracing::subscriber::set_global_default(Rec);
    }

    pub fn take() -> Vec<String> {
        LOG.with(|l| std::mem::take(&mut *l.borrow_mut()))
    }

    pub const ENABLED: bool = true;
}

#[cfg(not(feature = "tr"))]
mod imp {
    pub fn install() {}
    pub fn take() -> Vec<String> {
        Vec::new()
    }
    pub const ENABLED: bool = false;
}

pub use imp::*;

pub const LINE_PREFIX: &str = "Failed to process line ";
pub const VERSION_PREFIX: &str = "Failed to parse format version";

/// The rejected lines of the event log, in order: `(line text, error text)`.
/// The message format of the crate is `Failed to process line {line:?}: {err}`.
pub fn rejected_lines(log: &[String]) -> Vec<(String, String)> {
    let mut out = Vec::new();
    for ev in log {
        let Some(rest) = ev.strip_prefix(LINE_PREFIX) else { continue };
        if let Some((line, err)) = unquote_debug(rest) {
            out.push((line, err.trim_start_matches(": ").to_string()));
        }
    }
    out
}

/// Parse a leading Rust `{:?}`-quoted string; returns (content, remainder).
fn unquote_debug(s: &str) -> Option<(String, &str)> {
    let mut it = s.char_indices();
    if it.next()?.1 != '"' {
        return None;
    }
    let mut out = String::new();
    while let Some((i, c)) = it.next() {
        match c {
            '"' => return Some((out, &s[i + 1..])),
            '\\' => {
                let (_, e) = it.next()?;
                match e {
                    'n' => out.push('\n'),
                    'r' => out.push('\r'),
                    't' => out.push('\t'),
                    '0' => out.push('\0'),
                    '\\' => out.push('\\'),
                    '"' => out.push('"'),
                    '\'' => out.push('\''),
                    'u' => {
                        // \u{XXXX}
                        let (_, b) = it.next()?;
                        if b != '{' {
                            return None;
                        }
                        let mut v = 0u32;
                        loop {
                            let (_, h) = it.next()?;
                            if h == '}' {
                                break;
                            }
                            v = v * 16 + h.to_digit(16)?;
                        }
                        out.push(char::from_u32(v)?);
                    }
                    _ => return None,
                }
            }
            c => out.push(c),
        }
    }
    None
}
