//! `Recorder`: a `DecodeBeatmap` implementor whose state is the list of
//! `(section, line)` calls made by the real decode driver. Decoding into it
//! yields a hook-free trace of which line reached which section parser.

use rosu_map::{DecodeBeatmap, DecodeState};

#[derive(Debug, PartialEq, Eq, Clone, Default)]
pub struct Trace {
    pub version: i32,
    pub calls: Vec<(u8, String)>,
}

impl DecodeState for Trace {
    fn create(version: i32) -> Self {
        Trace {
            version,
            calls: Vec::new(),
        }
    }
}

#[derive(Debug)]
pub struct Never;

impl std::fmt::Display for Never {
    fn fmt(&self, _: &mut std::fmt::Formatter<'_>) -> std::fmt::Result {
        Ok(())
    }
}

impl std::error::Error for Never {}

macro_rules! rec {
    ($name:ident, $id:expr) => {
        fn $name(state: &mut Self::State, line: &str) -> Result<(), Self::Error> {
            state.calls.push(($id, line.to_owned()));
            Ok(())
        }
    };
}

impl DecodeBeatmap for Trace {
    type Error = Never;
    type State = Trace;
    rec!(parse_general, 0);
    rec!(parse_editor, 1);
    rec!(parse_metadata, 2);
    rec!(parse_difficulty, 3);
    rec!(parse_events, 4);
    rec!(parse_timing_points, 5);
    rec!(parse_colors, 6);
    rec!(parse_hit_objects, 7);
    rec!(parse_variables, 8);
    rec!(parse_catch_the_beat, 9);
    rec!(parse_mania, 10);
}

pub const SECTION_NAMES: [&str; 11] = [
    "General",
    "Editor",
    "Metadata",
    "Difficulty",
    "Events",
    "TimingPoints",
    "Colours",
    "HitObjects",
    "Variables",
    "CatchTheBeat",
    "Mania",
];

pub fn header_of(line: &str) -> Option<u8> {
    let inner = line.strip_prefix('[')?.strip_suffix(']')?;
    SECTION_NAMES.iter().position(|n| *n == inner).map(|i| i as u8)
}

impl Trace {
    pub fn render(&self) -> String {
        let mut s = format!("v{}", self.version);
        for (sec, line) in &self.calls {
            s.push_str(&format!("\n{}<{:?}", SECTION_NAMES[*sec as usize], line));
        }
        s
    }
}
