pub mod cmp;
pub mod io;
pub mod recorder;
pub mod trlog;
