//! Readers and writers that deliver bytes on a schedule and inject faults.

use std::io::{self, BufRead, ErrorKind, Read, Write};

/// `BufRead` that exposes exactly the scheduled chunk from `fill_buf`, and can
/// return `Interrupted` before chosen calls.
pub struct ChunkReader<'a> {
    data: &'a [u8],
    pos: usize,
    /// chunk sizes, cycled
    sizes: Vec<usize>,
    next_size: usize,
    /// end of the currently exposed chunk
    chunk_end: usize,
    /// call numbers (fill_buf/read calls counted together) that return Interrupted
    interrupts: Vec<u64>,
    /// k > 0: every call whose number is 1 modulo k returns Interrupted (k = 2: one transient
    /// interruption before every successful call)
    interrupt_every: u64,
    calls: u64,
    pub interrupts_fired: u64,
    pub chunks_exposed: u64,
}

impl<'a> ChunkReader<'a> {
    pub fn new(data: &'a [u8], sizes: Vec<usize>, interrupts: Vec<u64>) -> Self {
        Self {
            data,
            pos: 0,
            sizes: if sizes.is_empty() { vec![usize::MAX] } else { sizes },
            next_size: 0,
            chunk_end: 0,
            interrupts,
            interrupt_every: 0,
            calls: 0,
            interrupts_fired: 0,
            chunks_exposed: 0,
        }
    }

    /// one transient interruption before every `every - 1` successful calls, for the whole stream
    pub fn periodic(data: &'a [u8], sizes: Vec<usize>, every: u64) -> Self {
        let mut s = Self::new(data, sizes, Vec::new());
        s.interrupt_every = every.max(2);
        s
    }

    fn maybe_interrupt(&mut self) -> io::Result<()> {
        self.calls += 1;
        if self.interrupts.contains(&self.calls) || (self.interrupt_every > 0 && self.calls % self.interrupt_every == 1) {
            self.interrupts_fired += 1;
            return Err(io::Error::new(ErrorKind::Interrupted, "injected interrupt"));
        }
        Ok(())
    }

    fn ensure_chunk(&mut self) {
        if self.pos >= self.chunk_end {
            let sz = self.sizes[self.next_size % self.sizes.len()].max(1);
            self.next_size += 1;
            self.chunk_end = self.pos.saturating_add(sz).min(self.data.len());
            if self.chunk_end > self.pos {
                self.chunks_exposed += 1;
            }
        }
    }
}

impl Read for ChunkReader<'_> {
    fn read(&mut self, buf: &mut [u8]) -> io::Result<usize> {
        self.maybe_interrupt()?;
        self.ensure_chunk();
        let n = (self.chunk_end - self.pos).min(buf.len());
        buf[..n].copy_from_slice(&self.data[self.pos..self.pos + n]);
        self.pos += n;
        Ok(n)
    }
}

impl BufRead for ChunkReader<'_> {
    fn fill_buf(&mut self) -> io::Result<&[u8]> {
        self.maybe_interrupt()?;
        self.ensure_chunk();
        Ok(&self.data[self.pos..self.chunk_end])
    }

    fn consume(&mut self, amt: usize) {
        self.pos = (self.pos + amt).min(self.chunk_end);
    }
}

pub const FAULT_MARK: &str = "rvmon-injected-fault";

/// Reader that fails with `kind` once `fail_at` bytes were delivered.
pub struct FaultReader<'a> {
    data: &'a [u8],
    pos: usize,
    fail_at: usize,
    kind: ErrorKind,
    chunk: usize,
    /// fail only once: afterwards the rest of the data is delivered normally (a swallowed
    /// error then goes unnoticed unless the decoder reports it)
    pub one_shot: bool,
    pub fired: u64,
}

impl<'a> FaultReader<'a> {
    pub fn new(data: &'a [u8], fail_at: usize, kind: ErrorKind, chunk: usize) -> Self {
        Self {
            data,
            pos: 0,
            fail_at,
            kind,
            chunk: chunk.max(1),
            one_shot: false,
            fired: 0,
        }
    }

    fn limit(&self) -> usize {
        if self.one_shot && self.fired > 0 {
            self.data.len()
        } else {
            self.fail_at.min(self.data.len())
        }
    }

    fn must_fail(&self) -> bool {
        self.pos >= self.fail_at && !(self.one_shot && self.fired > 0)
    }

    fn fault(&mut self) -> io::Error {
        self.fired += 1;
        io::Error::new(self.kind, FAULT_MARK)
    }
}

impl Read for FaultReader<'_> {
    fn read(&mut self, buf: &mut [u8]) -> io::Result<usize> {
        if self.must_fail() {
            return Err(self.fault());
        }
        let n = (self.limit() - self.pos).min(buf.len()).min(self.chunk);
        buf[..n].copy_from_slice(&self.data[self.pos..self.pos + n]);
        self.pos += n;
        Ok(n)
    }
}

impl BufRead for FaultReader<'_> {
    fn fill_buf(&mut self) -> io::Result<&[u8]> {
        if self.must_fail() {
            return Err(self.fault());
        }
        let end = (self.pos + self.chunk).min(self.limit());
        Ok(&self.data[self.pos..end])
    }

    fn consume(&mut self, amt: usize) {
        self.pos = (self.pos + amt).min(self.limit());
    }
}

#[derive(Clone, Copy, Debug, PartialEq, Eq)]
pub enum WriteFault {
    /// no fault; accept at most `short` bytes per call
    None,
    /// `write` returns an error once `fail_at` bytes were accepted
    Error,
    /// `write` returns Ok(0) once `fail_at` bytes were accepted
    Zero,
    /// only `flush` fails
    Flush,
}

pub struct FaultWriter {
    pub out: Vec<u8>,
    pub fail_at: usize,
    pub mode: WriteFault,
    /// maximum number of bytes accepted per call (cycled)
    pub short: Vec<usize>,
    pub calls: usize,
    /// call numbers that return Interrupted
    pub interrupts: Vec<usize>,
    pub fired: u64,
    pub flushed: u64,
    pub kind: ErrorKind,
}

impl FaultWriter {
    pub fn new(mode: WriteFault, fail_at: usize) -> Self {
        Self {
            out: Vec::new(),
            fail_at,
            mode,
            short: vec![usize::MAX],
            calls: 0,
            interrupts: Vec::new(),
            fired: 0,
            flushed: 0,
            kind: ErrorKind::Other,
        }
    }
}

impl Write for FaultWriter {
    fn write(&mut self, buf: &[u8]) -> io::Result<usize> {
        self.calls += 1;
        if self.interrupts.contains(&self.calls) {
            return Err(io::Error::new(ErrorKind::Interrupted, "injected interrupt"));
        }
        if buf.is_empty() {
            return Ok(0);
        }
        let mut n = buf.len().min(self.short[self.calls % self.short.len()].max(1));
        if matches!(self.mode, WriteFault::Error | WriteFault::Zero) {
            let room = self.fail_at.saturating_sub(self.out.len());
            if room == 0 {
                self.fired += 1;
                return match self.mode {
                    WriteFault::Error => Err(io::Error::new(self.kind, FAULT_MARK)),
                    _ => Ok(0),
                };
            }
            n = n.min(room);
        }
        self.out.extend_from_slice(&buf[..n]);
        Ok(n)
    }

    fn flush(&mut self) -> io::Result<()> {
        self.flushed += 1;
        if self.mode == WriteFault::Flush {
            self.fired += 1;
            return Err(io::Error::new(self.kind, FAULT_MARK));
        }
        Ok(())
    }
}
