//! NaN-safe deep renderings and field-wise projections used by the
//! differential monitors. All floats are rendered with `{:?}` (exact,
//! distinguishes -0.0 from 0.0, every NaN is "NaN").

use rosu_map::{
    section::{
        colors::Colors,
        difficulty::Difficulty,
        editor::Editor,
        events::Events,
        general::{GameMode, General},
        hit_objects::{
            hit_samples::HitSampleInfo, CurveBuffers, HitObject, HitObjectKind, HitObjects,
            PathControlPoint, SplineType,
        },
        metadata::Metadata,
        timing_points::{ControlPoints, TimingPoints},
    },
    Beatmap,
};

pub type Fields = Vec<(&'static str, String)>;

macro_rules! fields {
    ($obj:expr; $($f:ident),* $(,)?) => {
        vec![ $( (stringify!($f), format!("{:?}", $obj.$f)) ),* ]
    };
}

macro_rules! general_fields {
    ($o:expr) => {
        fields!($o; audio_file, audio_lead_in, preview_time, default_sample_bank,
            default_sample_volume, stack_leniency, mode, letterbox_in_breaks, special_style,
            widescreen_storyboard, epilepsy_warning, samples_match_playback_rate, countdown,
            countdown_offset)
    };
}
macro_rules! editor_fields {
    ($o:expr) => {
        fields!($o; bookmarks, distance_spacing, beat_divisor, grid_size, timeline_zoom)
    };
}
macro_rules! metadata_fields {
    ($o:expr) => {
        fields!($o; title, title_unicode, artist, artist_unicode, creator, version, source, tags,
            beatmap_id, beatmap_set_id)
    };
}
macro_rules! difficulty_fields {
    ($o:expr) => {
        fields!($o; hp_drain_rate, circle_size, overall_difficulty, approach_rate,
            slider_multiplier, slider_tick_rate)
    };
}
macro_rules! events_fields {
    ($o:expr) => {
        fields!($o; background_file, breaks)
    };
}
macro_rules! colors_fields {
    ($o:expr) => {
        fields!($o; custom_combo_colors, custom_colors)
    };
}

fn cat(mut a: Fields, b: Fields) -> Fields {
    a.extend(b);
    a
}

/// What a specialised decoder returns, and the same fields taken from the full map.
pub fn proj_general(t: &General, m: &Beatmap) -> (Fields, Fields) {
    (general_fields!(t), general_fields!(m))
}
pub fn proj_editor(t: &Editor, m: &Beatmap) -> (Fields, Fields) {
    (editor_fields!(t), editor_fields!(m))
}
pub fn proj_metadata(t: &Metadata, m: &Beatmap) -> (Fields, Fields) {
    (metadata_fields!(t), metadata_fields!(m))
}
pub fn proj_difficulty(t: &Difficulty, m: &Beatmap) -> (Fields, Fields) {
    (difficulty_fields!(t), difficulty_fields!(m))
}
pub fn proj_events(t: &Events, m: &Beatmap) -> (Fields, Fields) {
    (events_fields!(t), events_fields!(m))
}
pub fn proj_colors(t: &Colors, m: &Beatmap) -> (Fields, Fields) {
    (colors_fields!(t), colors_fields!(m))
}
pub fn proj_timing_points(t: &TimingPoints, m: &Beatmap) -> (Fields, Fields) {
    (
        cat(general_fields!(t), fields!(t; control_points)),
        cat(general_fields!(m), fields!(m; control_points)),
    )
}
pub fn proj_hit_objects(t: &HitObjects, m: &Beatmap) -> (Fields, Fields) {
    (
        cat(
            cat(cat(general_fields!(t), difficulty_fields!(t)), events_fields!(t)),
            fields!(t; control_points, hit_objects),
        ),
        cat(
            cat(cat(general_fields!(m), difficulty_fields!(m)), events_fields!(m)),
            fields!(m; control_points, hit_objects),
        ),
    )
}

pub fn diff_fields(a: &Fields, b: &Fields) -> Vec<String> {
    let mut out = Vec::new();
    if a.len() != b.len() {
        out.push("<field count>".to_string());
    }
    for ((ka, va), (_, vb)) in a.iter().zip(b.iter()) {
        if va != vb {
            out.push((*ka).to_string());
        }
    }
    out
}

/// Full deep rendering of a map (every public and private field that `Debug` shows,
/// which includes each slider's cached curve).
pub fn full(m: &Beatmap) -> String {
    format!("{m:?}")
}

// ------------------------------------------------------------------ C02 key

pub fn mode_num(m: GameMode) -> u8 {
    match m {
        GameMode::Osu => 0,
        GameMode::Taiko => 1,
        GameMode::Catch => 2,
        GameMode::Mania => 3,
    }
}

pub fn sample_nb(v: &[HitSampleInfo]) -> String {
    v.iter()
        .map(|s| format!("{:?}/{:?}", s.name, s.bank))
        .collect::<Vec<_>>()
        .join(",")
}

pub fn cps_render(cps: &[PathControlPoint]) -> String {
    cps.iter()
        .map(|p| match p.path_type {
            None => format!("({:?},{:?})", p.pos.x, p.pos.y),
            Some(t) => format!("({:?},{:?}){:?}{:?}", p.pos.x, p.pos.y, t.kind, t.degree),
        })
        .collect::<Vec<_>>()
        .join(" ")
}

/// Two directly consecutive explicit Catmull segments — the one path layout the
/// statement of C02 excludes (the legacy text cannot carry it).
pub fn has_consecutive_catmull(cps: &[PathControlPoint]) -> bool {
    let mut last_typed_catmull = false;
    for (i, p) in cps.iter().enumerate() {
        if let Some(t) = p.path_type {
            let is_c = t.kind == SplineType::Catmull;
            if i > 0 && is_c && last_typed_catmull {
                return true;
            }
            last_typed_catmull = is_c;
        }
    }
    false
}

/// D13 classifier: a Catmull segment start directly followed by an untyped point at the
/// same position (the decoder consumes the first duplicate of a Catmull start as split marker).
pub fn is_d13_shape(cps: &[PathControlPoint]) -> bool {
    cps.windows(2).any(|w| {
        w[0].path_type.map(|t| t.kind) == Some(SplineType::Catmull) && w[1].path_type.is_none() && w[1].pos == w[0].pos
    })
}

#[derive(Clone, Debug, PartialEq)]
pub struct ObjKey {
    pub head: String,
    pub cps: String,
    pub curve: String,
    pub samples: String,
    pub excluded_catmull: bool,
    pub d13: bool,
    /// D15 classifier: no explicit length and a natural length beyond the decoder's limit
    pub d15: bool,
    /// D20 classifier: a sample file name that ends in whitespace
    pub d20: bool,
    /// D21 classifier: a slider node whose samples carry a custom file name
    pub d21: bool,
}

#[derive(Clone, Debug, PartialEq)]
pub struct MapKey {
    pub scalars: Vec<(&'static str, String)>,
    pub timing_points: String,
    pub timeline_sv: String,
    pub timeline_kiai: String,
    pub timeline_scroll: String,
    /// scroll-speed timeline with values below 0.1 raised to 0.1 (what survives D11)
    pub timeline_scroll_floor: String,
    pub objects: Vec<ObjKey>,
}

pub fn object_times(m: &mut Beatmap) -> Vec<f64> {
    let mut bufs = CurveBuffers::default();
    let mut out = Vec::new();
    for h in m.hit_objects.iter_mut() {
        out.push(h.start_time);
        let end = h.end_time_with_bufs(&mut bufs);
        out.push(end);
        if let HitObjectKind::Slider(ref mut s) = h.kind {
            let spans = f64::from(s.span_count());
            let dur = s.duration_with_bufs(&mut bufs);
            for i in 0..s.node_samples.len().min(64) {
                out.push(h.start_time + i as f64 * dur / spans);
            }
        }
    }
    out
}


pub fn control_point_times(cp: &ControlPoints) -> Vec<f64> {
    let mut out = Vec::new();
    out.extend(cp.timing_points.iter().map(|p| p.time));
    out.extend(cp.difficulty_points.iter().map(|p| p.time));
    out.extend(cp.effect_points.iter().map(|p| p.time));
    out.extend(cp.sample_points.iter().map(|p| p.time));
    out
}

/// Probe instants: every given time, midpoints between neighbours and one
/// instant beyond each end.
pub fn probe_times(mut times: Vec<f64>) -> Vec<f64> {
    times.retain(|t| t.is_finite());
    times.sort_by(|a, b| a.partial_cmp(b).unwrap());
    times.dedup();
    if times.len() > 400 {
        // keep the key bounded for huge maps: every k-th time
        let k = times.len() / 400 + 1;
        times = times.into_iter().step_by(k).collect();
    }
    let mut out = Vec::with_capacity(times.len() * 2 + 2);
    if let Some(first) = times.first() {
        out.push(first - 1000.0);
    }
    for w in times.windows(2) {
        out.push(w[0]);
        out.push(w[0] + (w[1] - w[0]) / 2.0);
    }
    if let Some(last) = times.last() {
        out.push(*last);
        out.push(last + 1000.0);
    }
    out
}

pub fn map_key(m: &mut Beatmap, probes: &[f64]) -> MapKey {
    let mania = m.mode == GameMode::Mania;
    let pos = |x: i32| if x > 0 { x } else { 0 };
    let mut scalars: Vec<(&'static str, String)> = fields!(m; format_version, audio_file,
        audio_lead_in, preview_time, stack_leniency, mode, letterbox_in_breaks,
        widescreen_storyboard, epilepsy_warning, samples_match_playback_rate, countdown,
        bookmarks, distance_spacing, beat_divisor, grid_size, timeline_zoom,
        title, title_unicode, artist, artist_unicode, creator, version, source, tags,
        hp_drain_rate, circle_size, overall_difficulty, approach_rate, slider_multiplier,
        slider_tick_rate, background_file, breaks, custom_combo_colors, custom_colors);
    scalars.push(("countdown_offset(positive)", format!("{}", pos(m.countdown_offset))));
    scalars.push(("beatmap_id(positive)", format!("{}", pos(m.beatmap_id))));
    scalars.push(("beatmap_set_id(positive)", format!("{}", pos(m.beatmap_set_id))));
    scalars.push((
        "special_style(mania)",
        format!("{}", mania && m.special_style),
    ));

    let cp = &m.control_points;
    let timing_points = format!("{:?}", cp.timing_points);
    let (mut sv, mut kiai, mut scroll, mut scroll_floor) =
        (String::new(), String::new(), String::new(), String::new());
    for &t in probes {
        let d = cp.difficulty_point_at(t).map_or(1.0, |p| p.slider_velocity);
        let e = cp.effect_point_at(t);
        let k = e.map_or(false, |e| e.kiai);
        let s = e.map_or(1.0, |e| e.scroll_speed);
        sv.push_str(&format!("{t:?}:{d:?};"));
        kiai.push_str(&format!("{t:?}:{k};"));
        scroll.push_str(&format!("{t:?}:{s:?};"));
        scroll_floor.push_str(&format!("{t:?}:{:?};", s.max(0.1)));
    }

    let mut bufs = CurveBuffers::default();
    let mut objects = Vec::with_capacity(m.hit_objects.len());
    for h in m.hit_objects.iter_mut() {
        objects.push(object_key(h, &mut bufs));
    }

    MapKey {
        scalars,
        timing_points,
        timeline_sv: sv,
        timeline_kiai: kiai,
        timeline_scroll: scroll,
        timeline_scroll_floor: scroll_floor,
        objects,
    }
}

fn file_name_ends_in_whitespace(v: &[HitSampleInfo]) -> bool {
    v.iter().any(|s| match &s.name {
        rosu_map::section::hit_objects::hit_samples::HitSampleInfoName::File(f) => f.trim_end() != f.as_str(),
        _ => false,
    })
}

pub fn object_key(h: &mut HitObject, bufs: &mut CurveBuffers) -> ObjKey {
    let samples = sample_nb(&h.samples);
    let d20_own = file_name_ends_in_whitespace(&h.samples);
    match &mut h.kind {
        HitObjectKind::Circle(c) => ObjKey {
            head: format!(
                "{:?} circle pos ({:?},{:?}) nc {} co {}",
                h.start_time, c.pos.x, c.pos.y, c.new_combo, c.combo_offset
            ),
            cps: String::new(),
            curve: String::new(),
            samples,
            excluded_catmull: false,
            d13: false,
            d15: false,
            d20: d20_own,
            d21: false,
        },
        HitObjectKind::Slider(s) => {
            let excluded = has_consecutive_catmull(s.path.control_points());
            let d13 = is_d13_shape(s.path.control_points());
            let cps = cps_render(s.path.control_points());
            let (curve, dist) = {
                let c = s.path.curve_with_bufs(bufs);
                (format!("{:?} {:?}", c.path(), c.lengths()), c.dist())
            };
            let d15 = s.path.expected_dist().is_none() && dist > 131_072.0;
            let nodes = s
                .node_samples
                .iter()
                .map(|v| sample_nb(v))
                .collect::<Vec<_>>()
                .join(" | ");
            ObjKey {
                head: format!(
                    "{:?} slider pos ({:?},{:?}) nc {} co {} repeats {} velocity {:?} nodes {}",
                    h.start_time,
                    s.pos.x,
                    s.pos.y,
                    s.new_combo,
                    s.combo_offset,
                    s.repeat_count,
                    s.velocity,
                    s.node_samples.len()
                ),
                cps,
                curve,
                samples: format!("{samples} || {nodes}"),
                excluded_catmull: excluded,
                d13,
                d15,
                d20: d20_own || s.node_samples.iter().any(|v| file_name_ends_in_whitespace(v)),
                d21: s.node_samples.iter().any(|v| {
                    v.iter().any(|x| matches!(x.name, rosu_map::section::hit_objects::hit_samples::HitSampleInfoName::File(_)))
                }),
            }
        }
        HitObjectKind::Spinner(s) => ObjKey {
            head: format!(
                "{:?} spinner dur {:?} nc {}",
                h.start_time, s.duration, s.new_combo
            ),
            cps: String::new(),
            curve: String::new(),
            samples,
            excluded_catmull: false,
            d13: false,
            d15: false,
            d20: d20_own,
            d21: false,
        },
        HitObjectKind::Hold(hd) => ObjKey {
            head: format!("{:?} hold x {:?} dur {:?}", h.start_time, hd.pos_x, hd.duration),
            cps: String::new(),
            curve: String::new(),
            samples,
            excluded_catmull: false,
            d13: false,
            d15: false,
            d20: d20_own,
            d21: false,
        },
    }
}

/// Labels of everything that differs between two keys. Control points / curves of
/// sliders the statement excludes (consecutive explicit Catmull segments) are skipped.
pub fn diff_keys(a: &MapKey, b: &MapKey) -> Vec<String> {
    let mut out = Vec::new();
    for ((k, va), (_, vb)) in a.scalars.iter().zip(b.scalars.iter()) {
        if va != vb {
            out.push(format!("scalar:{k}"));
        }
    }
    if a.timing_points != b.timing_points {
        out.push("timing_points".into());
    }
    if a.timeline_sv != b.timeline_sv {
        out.push("timeline:slider_velocity".into());
    }
    if a.timeline_kiai != b.timeline_kiai {
        out.push("timeline:kiai".into());
    }
    if a.timeline_scroll != b.timeline_scroll {
        out.push("timeline:scroll_speed".into());
    }
    if a.objects.len() != b.objects.len() {
        out.push(format!("object_count:{}!={}", a.objects.len(), b.objects.len()));
        return out;
    }
    for (i, (x, y)) in a.objects.iter().zip(b.objects.iter()).enumerate() {
        if x.head != y.head {
            out.push(format!("object[{i}]:head"));
        }
        if x.samples != y.samples {
            out.push(format!("object[{i}]:samples"));
        }
        if x.excluded_catmull {
            continue;
        }
        if x.cps != y.cps {
            out.push(format!("object[{i}]:control_points"));
        }
        if x.curve != y.curve {
            out.push(format!("object[{i}]:curve"));
        }
    }
    out
}
