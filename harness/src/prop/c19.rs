//! C19 — position along a curve is a faithful arc-length parametrisation.
//!
//! Refuting events: `position_at(0) != path[0]`, `position_at(1) != path[last]`,
//! clamping broken, `progress_to_dist(p) != clamp(p) * dist`, a move longer than the
//! arc length between two progress values, `position_at(lengths[i]/dist) != path[i]`
//! (coincident cumulative lengths: any of the coincident vertices). Position
//! comparisons are geometric (1e-4 + 1e-6 |coord|), NaN progress is excluded.

use rosu_map::{
    section::hit_objects::{Curve, CurveBuffers},
    util::Pos,
};

use crate::{
    gen::paths::{self, MODES},
    util::{mix64, Ctx, Rng, J},
};

fn close(a: Pos, b: Pos, scale: f64) -> bool {
    let tol = 1e-4 + 1e-6 * scale;
    (f64::from(a.x) - f64::from(b.x)).abs() <= tol && (f64::from(a.y) - f64::from(b.y)).abs() <= tol
}

/// independent linear-scan interpolation at distance d
fn reference_position(path: &[Pos], lens: &[f64], d: f64) -> Option<(f64, f64)> {
    if path.is_empty() {
        return Some((0.0, 0.0));
    }
    let n = path.len().min(lens.len());
    if n == 0 {
        return None;
    }
    if d <= lens[0] {
        return Some((f64::from(path[0].x), f64::from(path[0].y)));
    }
    for i in 1..n {
        if d <= lens[i] {
            let (d0, d1) = (lens[i - 1], lens[i]);
            if (d1 - d0).abs() <= 1e-9 {
                return None; // coincident vertices: any of them is acceptable, judged elsewhere
            }
            let w = (d - d0) / (d1 - d0);
            let (a, b) = (path[i - 1], path[i]);
            return Some((f64::from(a.x) + f64::from(b.x - a.x) * w, f64::from(a.y) + f64::from(b.y - a.y) * w));
        }
    }
    let l = path[n - 1];
    Some((f64::from(l.x), f64::from(l.y)))
}

/// All relations of the statement on one curve. `r` supplies random progress values.
pub fn relations(ctx: &mut Ctx, index: u64, c: &Curve, w: &str, r: Option<&mut Rng>, count_eval: bool) {
    let path = c.path();
    let lens = c.lengths();
    if path.is_empty() {
        // nothing to be at, but every query still has to answer (a panic here is reported by the case runner)
        ctx.count("c19_empty_curves");
        for p in [0.0, 0.5, 1.0, -1.0, 2.0] {
            let q = c.position_at(p);
            let d = c.progress_to_dist(p);
            if !(q.x.is_finite() && q.y.is_finite()) || d != 0.0 {
                ctx.violation("empty_curve", format!("empty curve: position_at({p}) = {q:?}, progress_to_dist = {d:?}"), index, w.as_bytes());
                return;
            }
        }
        return;
    }
    if path.iter().any(|p| !p.x.is_finite() || !p.y.is_finite()) || lens.iter().any(|l| !l.is_finite()) {
        return; // reported by C16
    }
    ctx.count("c19_curves");
    let dist = c.dist();
    let scale = path.iter().map(|p| f64::from(p.x.abs().max(p.y.abs()))).fold(dist.abs(), f64::max);
    let first = path[0];
    let last = path[path.len() - 1];
    if dist == 0.0 {
        ctx.count("c19_zero_length_curves");
    }
    macro_rules! fail {
        ($kind:expr, $($arg:tt)*) => {{
            ctx.violation($kind, format!($($arg)*), index, w.as_bytes());
            return;
        }};
    }
    // ends and clamping
    for p in [0.0, -0.0, -1.0, -1e300, f64::MIN_POSITIVE * 0.0, f64::NEG_INFINITY] {
        let q = c.position_at(p);
        if !close(q, first, scale) {
            fail!("start_position", "position_at({p:?}) = {q:?} but the first path point is {first:?} (lengths start {:?})", &lens[..lens.len().min(3)]);
        }
    }
    for p in [1.0, 1.0 + f64::EPSILON, 2.0, 1e300, f64::INFINITY] {
        let q = c.position_at(p);
        if !close(q, last, scale) {
            fail!("end_position", "position_at({p:?}) = {q:?} but the last path point is {last:?} (lengths end {:?})", &lens[lens.len().saturating_sub(3)..]);
        }
    }
    // progress_to_dist
    for p in [-1.0, 0.0, 5e-324, 0.25, 0.5, 1.0 - f64::EPSILON / 2.0, 1.0, 3.0] {
        let got = c.progress_to_dist(p);
        let want = p.clamp(0.0, 1.0) * dist;
        if got.to_bits() != want.to_bits() && got != want {
            fail!("progress_to_dist", "progress_to_dist({p:?}) = {got:?}, expected {want:?}");
        }
    }
    if dist > 0.0 {
        // vertices at their cumulative length
        let n = path.len().min(lens.len());
        let stride = (n / 300).max(1);
        for i in (0..n).step_by(stride) {
            let pr = lens[i] / dist;
            if !(0.0..=1.0).contains(&pr) {
                continue;
            }
            let q = c.position_at(pr);
            ctx.count("c19_vertex_probes");
            if close(q, path[i], scale) {
                continue;
            }
            // coincident cumulative lengths: any of the coincident vertices
            let tol = 1e-9 * dist.max(1.0);
            let coincident = (0..n).any(|j| (lens[j] - lens[i]).abs() <= tol && close(q, path[j], scale));
            if !coincident {
                fail!("vertex_position", "position_at(lengths[{i}]/dist = {pr:?}) = {q:?} but vertex {i} is {:?} (lengths around {:?})", path[i], &lens[i.saturating_sub(1)..(i + 2).min(lens.len())]);
            }
        }
        // arc-length bound between pairs and agreement with the linear-scan interpolation
        let mut local = Rng::new(index ^ 0x77);
        let r = match r {
            Some(r) => r,
            None => &mut local,
        };
        for k in 0..12 {
            let (a, b) = if k < 4 { (r.f(), r.f()) } else { let a = r.f(); (a, (a + (r.f() - 0.5) * 0.02).clamp(0.0, 1.0)) };
            let (pa, pb) = (c.position_at(a), c.position_at(b));
            let moved = f64::from(pa.x - pb.x).hypot(f64::from(pa.y - pb.y));
            let arc = (a - b).abs() * dist;
            ctx.count("c19_pair_probes");
            if moved > arc + 1e-3 + 1e-6 * scale {
                fail!("moves_farther_than_arc", "positions at progress {a:?} and {b:?} are {moved:?} apart but the arc between them is only {arc:?}");
            }
            // the two steps position_at is documented to consist of, called directly
            let d = c.progress_to_dist(a);
            let i = c.idx_of_dist(d);
            ctx.count("c19_index_probes");
            if i > lens.len() || (i < lens.len() && lens[i] < d - 1e-4) || (i > 0 && i <= lens.len() && lens[i - 1] > d + 1e-4) {
                fail!("idx_of_dist", "idx_of_dist({d:?}) = {i} but the cumulative lengths around it are {:?}", &lens[i.saturating_sub(2).min(lens.len())..(i + 2).min(lens.len())]);
            }
            let q = c.interpolate_vertices(i, d);
            if !close(q, pa, scale) {
                fail!("interpolate_vertices", "interpolate_vertices({i}, {d:?}) = {q:?} but position_at({a:?}) = {pa:?}");
            }
            if let Some((x, y)) = reference_position(path, lens, a.clamp(0.0, 1.0) * dist) {
                let tol = 1e-3 + 1e-5 * scale;
                if (f64::from(pa.x) - x).abs() > tol || (f64::from(pa.y) - y).abs() > tol {
                    fail!("interpolation", "position_at({a:?}) = {pa:?}, linear-scan interpolation gives ({x:?}, {y:?})");
                }
            }
        }
    }
    if count_eval {
        let mut d = mix64(path.len() as u64);
        for p in path.iter().take(64) {
            d = mix64(d ^ u64::from(p.x.to_bits()) << 32 ^ u64::from(p.y.to_bits()));
        }
        ctx.eval(mix64(d ^ dist.to_bits()), path.len() >= 2);
    }
}

pub fn run(ctx: &mut Ctx) {
    let mut bufs = CurveBuffers::default();
    let n = ctx.n(100_000, 2_500_000);
    for i in 0..n {
        if ctx.only.is_some_and(|k| k != i) {
            continue;
        }
        let mut r = ctx.rng_for(0, i);
        // now and then the empty control-point list: a curve without any point still answers every query
        let pts = if i % 512 == 7 { Vec::new() } else { paths::random_points(&mut r) };
        let mode = MODES[r.below(4)];
        if i % 2 == 1 {
            // the shared buffers still hold an unrelated borrowed curve
            paths::dirty(&mut ctx.rng_for(9, i), &mut bufs);
            ctx.count("computed_after_a_borrowed_curve");
        }
        let nat = Curve::new(mode, &pts, None, &mut bufs);
        let nd = nat.dist();
        let l = match r.below(10) {
            0 => None,
            8 => Some(0.0),
            9 => Some(-r.f() * 50.0),
            1 => Some(1e-3),
            2 => Some(nd * r.f()),
            3 => Some(nd),
            4 => Some(nd * (1.0 + r.f())),
            5 => Some(nd + 1e5 * r.f()),
            6 => Some(131_072.0),
            _ => Some(r.f() * 10.0),
        }
        .filter(|l: &f64| l.is_finite());
        let w = format!("{mode:?} {} L={l:?}", paths::describe(&pts));
        ctx.case(i, w.as_bytes(), |ctx| {
            let c = match l {
                None => nat.clone(),
                Some(l) => Curve::new(mode, &pts, Some(l), &mut bufs),
            };
            ctx.count(match l {
                None => "natural_curves",
                Some(l) if l <= 0.0 => "non_positive_length_curves",
                Some(_) => "adjusted_curves",
            });
            relations(ctx, i, &c, &w, Some(&mut r), true);
            // the borrowed view answers identically
            let b = c.as_borrowed_curve();
            for p in [0.0, 0.3, 0.77, 1.0, -0.5, 1.5, r.f(), r.f()] {
                let (db, dc) = (b.progress_to_dist(p), c.progress_to_dist(p));
                let (ib, ic) = (b.idx_of_dist(db), c.idx_of_dist(dc));
                if format!("{:?}", b.position_at(p)) != format!("{:?}", c.position_at(p))
                    || db.to_bits() != dc.to_bits()
                    || ib != ic
                    || format!("{:?}", b.interpolate_vertices(ib, db)) != format!("{:?}", c.interpolate_vertices(ic, dc))
                {
                    ctx.violation("borrowed_differs", format!("BorrowedCurve answers differ from Curve's at progress {p}: position {:?} vs {:?}, distance {db:?} vs {dc:?}, index {ib} vs {ic}", b.position_at(p), c.position_at(p)), i, w.as_bytes());
                    break;
                }
            }
            // a borrowed curve computed on its own (not a view of the owned one) answers identically as well
            {
                let fresh = rosu_map::section::hit_objects::BorrowedCurve::new(mode, &pts, l, &mut bufs);
                for p in [0.0, 0.41, 1.0, r.f()] {
                    if format!("{:?}", fresh.position_at(p)) != format!("{:?}", c.position_at(p)) || fresh.progress_to_dist(p).to_bits() != c.progress_to_dist(p).to_bits() {
                        ctx.violation("borrowed_differs", format!("BorrowedCurve::new answers differ from Curve::new at progress {p}: {:?} vs {:?}", fresh.position_at(p), c.position_at(p)), i, w.as_bytes());
                        break;
                    }
                }
            }
        });
        if ctx.want_sample() && pts.len() >= 3 && i % 71 == 23 {
            ctx.sample(J::O(vec![("curve".into(), J::s(w.clone()))]));
        }
        if ctx.out_of_time() {
            break;
        }
    }
}
