//! C11 — key/value, event and colour records decode per the format rules.
//!
//! Refuting event: a record list for which the decoded section fields differ from
//! the table-driven reference interpretation (`model::sections`).

use rosu_map::Beatmap;

use crate::{
    model::sections::{self, Aux, R},
    obs::recorder::SECTION_NAMES,
    util::{fnv64, Ctx, Rng, J},
};

const KEYS: [&[&str]; 7] = [
    &[
        "AudioFilename", "AudioLeadIn", "PreviewTime", "SampleSet", "SampleVolume", "StackLeniency", "Mode", "LetterboxInBreaks",
        "SpecialStyle", "WidescreenStoryboard", "EpilepsyWarning", "SamplesMatchPlaybackRate", "Countdown", "CountdownOffset",
        "Unknown", "audiofilename", "Mode ", "",
    ],
    &["Bookmarks", "DistanceSpacing", "BeatDivisor", "GridSize", "TimelineZoom", "Foo", "bookmarks"],
    &["Title", "TitleUnicode", "Artist", "ArtistUnicode", "Creator", "Version", "Source", "Tags", "BeatmapID", "BeatmapSetID", "title", "Titel"],
    &["HPDrainRate", "CircleSize", "OverallDifficulty", "ApproachRate", "SliderMultiplier", "SliderTickRate", "Bar", "approachrate"],
    &[],
    &[],
    &["Combo1", "Combo2", "Combo", "Comboxyz", "SliderBorder", "SliderTrackOverride", "x y", "", "combo1", "SliderBorder "],
];

const VALS: &[&str] = &[
    "0", "1", "2", "3", "4", "-1", "01", "+1", " 1 ", "1.0", "1.5", "0.3", "0.4", "0.39", "0.45", "3.6", "3.7", "9", "0.5", "0.49", "8", "8.5",
    "2147483647", "2147483648", "-2147483647", "-2147483648", "1e10", "1e9", "NaN", "inf", "-inf", "", "x", "None", "Normal", "Soft", "Drum",
    "Half speed", "Double speed", "half speed", "a b.mp3", "dir\\f.mp3", "1 // c", "1//c", "// c", "1,2,3", "10,20,30,40", "1,2", "1,2,3,4,5",
    "256,0,0", "-1,0,0", " 1 , 2 , 3 ", "1,x,3", "1,2,3 // c", "100,200,30,x", "+1,+2,+3", "a:b", "1:2", ": 5", "Re:Zero // x", "1e-320", "-0",
    "1.0000000596046447753906251", "16777217.0000000001", "2147483649", "2147483776", "2147483777", "-2147483700",
    "0.1e1", "1.", ".5", "1,2,3,", "1,,3", "é", "日本語 title", "１", "1\u{a0}", "\u{feff}1", "٣",
];

const EVENTS: &[&str] = &[
    "0,0,\"bg.jpg\",0,0", "0,0,bg2.png", "Background,0,\"b\\\\c.jpg\"", "1,0,\"v.mp4\"", "1,0,\"v.jpg\"", "Video,0,\"V.AVI\"", "Video,0,\"V.JPEG\"",
    "1,0,ab", "1,0,abc", "4,Background,Centre,\"sp.png\",320,240", "Sprite,a,b", "Sprite,a,b,\"s2.png\"", "2,100,200", "2,300,200", "Break,1.5,2.5",
    "2,x,5", "2,5,NaN", "2,5,1e10", "2,NaN,5", "2,5", "3,100,163,162,255", "5,1,0,\"a.wav\",50", "6,a,b,c", "9,9,9", "0,0", "", "0,0,\"q // c.jpg\"",
    " 0,0,x.jpg", "0 ,0,y.jpg", "Video,0,\"видео\"", "1,0,日a", "1,0,é", "Video,0,\"x.mpé\"", "0,0,\"背景\"", "Sprite,a,b,\"🎵\"", "1,0,\"aé\"", "1,0,\"\u{fffd}i\"", "2, 100 , 200 ", "2,-0,0", "2,2147483647,2147483648", "0,0,\"\"", "0,0,", "1,0,\"x.m4v\"", "4,a,b,\"\"",
];

fn fmt_kv(r: &mut Rng, k: &str, v: &str, variant: Option<usize>) -> String {
    match variant.unwrap_or_else(|| r.below(9)) {
        // white space around key and value that is not ASCII (or not the usual ASCII): trimmed all the same
        6 => format!("{k}:\u{3000}{v}"),
        7 => format!("{k}:\u{a0}{v}\u{2003}"),
        8 => format!("{k}\u{a0}:\u{b}{v}"),
        0 => format!("{k}:{v}"),
        1 => format!("{k}: {v}"),
        2 => format!("{k} : {v} "),
        3 => format!("  {k}:{v}"),
        4 => format!("{k}:\t{v}"),
        _ => format!("{k}:{v} // trailing"),
    }
}

pub fn run(ctx: &mut Ctx) {
    if let Some(lit) = ctx.literal.clone() {
        let text = String::from_utf8_lossy(&lit).into_owned();
        check_text(ctx, 0, &text);
        return;
    }
    // ---- stream 1: exhaustive singles and pairs
    let mut idx = 0u64;
    let mut complete = true;
    let mut r0 = ctx.rng_for(9, 0);
    'enumeration: for sec in [0usize, 1, 2, 3, 6] {
        let keys = KEYS[sec];
        // every key x every value class x every spelling, alone
        for k in keys {
            for v in VALS {
                for variant in 0..9 {
                    idx += 1;
                    if idx % ctx.nshards != ctx.shard {
                        continue;
                    }
                    let line = fmt_kv(&mut r0, k, v, Some(variant));
                    check_records(ctx, 1 << 56 | idx, &[(sec as u8, line)]);
                }
            }
        }
        // ordered pairs: the same key twice (last valid occurrence wins) ...
        for k in keys {
            for v1 in VALS {
                for v2 in VALS {
                    idx += 1;
                    if idx % ctx.nshards != ctx.shard {
                        continue;
                    }
                    check_records(ctx, 1 << 56 | idx, &[(sec as u8, format!("{k}: {v1}")), (sec as u8, format!("{k}:{v2}"))]);
                }
            }
            if ctx.out_of_time() {
                complete = false;
                break 'enumeration;
            }
        }
        // ... and all pairs of different keys of the sections with cross-key rules
        if sec == 3 || sec == 6 {
            let vals: Vec<&&str> = VALS.iter().step_by(1).collect();
            for k1 in keys {
                for k2 in keys {
                    for v1 in &vals {
                        for v2 in &vals {
                            idx += 1;
                            if idx % ctx.nshards != ctx.shard {
                                continue;
                            }
                            check_records(ctx, 1 << 56 | idx, &[(sec as u8, format!("{k1}:{v1}")), (sec as u8, format!("{k2}: {v2}"))]);
                        }
                    }
                }
                if ctx.out_of_time() {
                    complete = false;
                    break 'enumeration;
                }
            }
        }
    }
    // events: singles, ordered pairs and triples (precedence of background / video / sprite)
    if complete {
        for a in EVENTS {
            idx += 1;
            if idx % ctx.nshards == ctx.shard {
                check_records(ctx, 1 << 56 | idx, &[(4, (*a).to_string())]);
            }
            for b in EVENTS {
                idx += 1;
                if idx % ctx.nshards == ctx.shard {
                    check_records(ctx, 1 << 56 | idx, &[(4, (*a).to_string()), (4, (*b).to_string())]);
                }
                for c in EVENTS.iter().step_by(1) {
                    idx += 1;
                    if idx % ctx.nshards == ctx.shard {
                        check_records(ctx, 1 << 56 | idx, &[(4, (*a).to_string()), (4, (*b).to_string()), (4, (*c).to_string())]);
                    }
                }
            }
        }
    }
    ctx.report.exhaustive = Some(complete);
    ctx.note(format!(
        "exhaustive part: every key x {} value classes x 9 spellings alone, every same-key ordered pair, all key pairs of Difficulty and Colours, all event singles/pairs/triples over {} event shapes ({idx} record lists over all shards)",
        VALS.len(),
        EVENTS.len()
    ));

    // ---- stream 0: random sequences mixing sections, unknown keys and duplicates
    let n = ctx.n(48_000, 2_000_000);
    for i in 0..n {
        if ctx.only.is_some_and(|k| k != i) {
            continue;
        }
        let mut r = ctx.rng_for(0, i);
        let nsec = 1 + r.below(5);
        let mut recs: Vec<(u8, String)> = Vec::new();
        for _ in 0..nsec {
            let sec = [0usize, 1, 2, 3, 4, 6][r.below(6)];
            let nl = r.below(8);
            for _ in 0..nl {
                let line = if sec == 4 {
                    (*r.pick(EVENTS)).to_string()
                } else {
                    let k = *r.pick(KEYS[sec]);
                    let v = *r.pick(VALS);
                    fmt_kv(&mut r, k, v, None)
                };
                recs.push((sec as u8, line));
            }
        }
        check_records(ctx, i, &recs);
        if ctx.out_of_time() {
            break;
        }
    }
}

fn check_records(ctx: &mut Ctx, index: u64, recs: &[(u8, String)]) {
    let mut text = String::from("osu file format v14\n");
    let mut cur = 255u8;
    for (sec, line) in recs {
        if *sec != cur {
            text.push_str(&format!("[{}]\n", SECTION_NAMES[*sec as usize]));
            cur = *sec;
        }
        text.push_str(line);
        text.push('\n');
    }
    check_text(ctx, index, &text);
}

fn check_text(ctx: &mut Ctx, index: u64, text: &str) {
    let bytes = text.as_bytes();
    let mut nontrivial = false;
    ctx.case(index, bytes, |ctx| {
        // reference interpretation over the dispatched lines (framing per C05's model)
        let trace = crate::model::framing::model(bytes);
        let mut exp = R::default();
        let mut aux = Aux::default();
        for (sec, line) in &trace.calls {
            sections::apply(&mut exp, &mut aux, *sec, line);
            ctx.count(&format!("records_{}", SECTION_NAMES[*sec as usize]));
        }
        nontrivial = exp != R::default();
        let Ok(m) = rosu_map::from_bytes::<Beatmap>(bytes) else {
            ctx.violation("err_from_memory", "decode failed".into(), index, bytes);
            return;
        };
        let got = sections::proj(&m);
        if got != exp {
            let d = sections::diff(&got, &exp);
            ctx.violation("section_value_mismatch", format!("decoded value != reference interpretation: {d:?}"), index, bytes);
        }
    });
    ctx.eval(fnv64(bytes), nontrivial);
    if ctx.want_sample() && nontrivial && index % 43 == 17 {
        ctx.sample(J::O(vec![("records".into(), J::s(text.to_string()))]));
    }
}
