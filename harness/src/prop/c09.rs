//! C09 — I/O faults are surfaced, never swallowed or turned into partial results.
//!
//! Refuting events: the reader fails with kind `k` at offset `o` but `decode`
//! returns `Ok`, a different error, or panics; the writer fails / stops accepting
//! data at offset `o` < total but `encode` returns `Ok`, or panics; a flush failure
//! is swallowed; `Interrupted` or short writes change the output bytes.

use std::io::ErrorKind;

use rosu_map::{section::hit_objects::HitObjects, Beatmap, DecodeBeatmap};

use crate::{
    gen::{self, osu, Corpus, ENCS},
    obs::{
        cmp,
        io::{ChunkReader, FaultReader, FaultWriter, WriteFault, FAULT_MARK},
        recorder::Trace,
    },
    prop::common::{encode_cost, ENCODE_COST_LIMIT},
    util::{fnv64, show, Ctx, Rng, J},
};

const KINDS: [ErrorKind; 5] = [
    ErrorKind::Other,
    ErrorKind::UnexpectedEof,
    ErrorKind::PermissionDenied,
    ErrorKind::TimedOut,
    ErrorKind::WouldBlock,
];

/// A path whose reads fail (`/proc/self/mem` reports size 0 and fails with EIO at offset 0): `from_path` has to
/// surface that error. Skipped where the environment does not behave like that.
fn failing_path(ctx: &mut Ctx) {
    use std::io::Read;
    let path = "/proc/self/mem";
    let fails = std::fs::File::open(path).map(|mut f| f.read(&mut [0u8; 16]).is_err()).unwrap_or(false);
    if !fails {
        ctx.count("failing_path_unavailable");
        return;
    }
    ctx.case(9 << 56, path.as_bytes(), |ctx| {
        ctx.count("failing_path_decodes");
        if rosu_map::from_path::<Beatmap>(path).is_ok() || Beatmap::from_path(path).is_ok() || rosu_map::from_path::<Trace>(path).is_ok() {
            ctx.violation("read_fault_swallowed", format!("reading {path} fails with an I/O error, yet from_path returned Ok"), 9 << 56, path.as_bytes());
        }
    });
    ctx.eval(fnv64(path.as_bytes()), true);
}

pub fn run(ctx: &mut Ctx) {
    if ctx.shard == 0 && ctx.literal.is_none() {
        failing_path(ctx);
    }
    let corpus = Corpus::load(&ctx.repo);
    if corpus.files.is_empty() {
        ctx.inconclusive(format!("no bundled maps found under {}/resources", ctx.repo));
    }
    if let Some(lit) = ctx.literal.clone() {
        let mut r = ctx.rng_for(9, 0);
        one_file(ctx, 0, &lit, "literal", &mut r, usize::MAX);
        return;
    }
    // stream 1: bundled files — every offset of the small ones, sampled offsets of the large ones
    let mut k = 0u64;
    for (i, (name, bytes)) in corpus.files.iter().enumerate() {
        let small = bytes.len() <= 16 * 1024;
        if ctx.quick() && !small {
            continue;
        }
        k += 1;
        if k % ctx.nshards != ctx.shard {
            continue;
        }
        let mut r = ctx.rng_for(1, i as u64);
        let offsets = if small {
            if ctx.quick() {
                3000
            } else {
                usize::MAX
            }
        } else {
            256
        };
        ctx.seen("bundled_files", name.clone());
        one_file(ctx, 1 << 56 | i as u64, bytes, "bundled", &mut r, offsets);
        if ctx.out_of_time() {
            return;
        }
    }
    // stream 0: generated files in the non-UTF-8 encodings as well
    let n = ctx.n(320, 6_000);
    for i in 0..n {
        if ctx.only.is_some_and(|q| q != i) {
            continue;
        }
        let mut r = ctx.rng_for(0, i);
        let cfg = osu::Cfg {
            hostile: [0u8, 1][r.below(2)],
            max_objects: 6,
            max_tp: 4,
            all_keys: r.chance(1, 2),
            ..osu::Cfg::default()
        };
        let g = osu::gen_map(&mut r, &cfg);
        let bytes = gen::transcode(&g.text(), ENCS[r.below(4)]);
        one_file(ctx, i, &bytes, "generated", &mut r, if ctx.quick() { 200 } else { 600 });
        if ctx.out_of_time() {
            break;
        }
    }
}

fn one_file(ctx: &mut Ctx, index: u64, bytes: &[u8], class: &str, r: &mut Rng, max_offsets: usize) {
    ctx.count(&format!("class_{class}"));
    let len = bytes.len();
    // offsets 0..=len, all of them or a sample that always contains both ends
    let offsets: Vec<usize> = if len + 1 <= max_offsets {
        (0..=len).collect()
    } else {
        let mut v: Vec<usize> = (0..max_offsets.saturating_sub(4)).map(|_| r.below(len + 1)).collect();
        v.extend_from_slice(&[0, 1.min(len), len.saturating_sub(1), len]);
        v.sort_unstable();
        v.dedup();
        v
    };
    let mut faults = 0u64;
    ctx.case(index, bytes, |ctx| {
        // ---------------- reader faults
        for (j, &o) in offsets.iter().enumerate() {
            for (ki, kind) in KINDS.iter().enumerate() {
                // every offset sees every kind in thorough; quick rotates kinds over offsets of files > 4 KiB
                if ctx.quick() && len > 4096 && (j + ki) % 5 != 0 {
                    continue;
                }
                let chunk = [1usize, 7, 64, 8192][(j + ki) % 4];
                let mut rd = FaultReader::new(bytes, o, *kind, chunk);
                // persistent and one-shot faults alternate: a swallowed one-shot error lets the decode finish
                rd.one_shot = (j / 2 + ki) % 2 == 1;
                if rd.one_shot {
                    ctx.count("reader_faults_one_shot");
                }
                let res = if j % 2 == 0 {
                    Beatmap::decode(&mut rd).map(|_| ())
                } else {
                    HitObjects::decode(&mut rd).map(|_| ())
                };
                if rd.fired == 0 {
                    ctx.count("reader_fault_not_reached");
                    continue;
                }
                faults += 1;
                ctx.count(&format!("reader_fault_{kind:?}"));
                match res {
                    Ok(()) => ctx.violation(
                        "read_fault_swallowed",
                        format!("reader failed with {kind:?} after {o} of {len} bytes (chunk {chunk}) but decode returned Ok"),
                        index,
                        bytes,
                    ),
                    Err(e) => {
                        let own = e.get_ref().is_some_and(|inner| inner.to_string() == FAULT_MARK);
                        if e.kind() != *kind || !own {
                            ctx.violation(
                                "read_fault_replaced",
                                format!("reader failed with {kind:?} after {o} of {len} bytes but decode returned a different error: {e:?}"),
                                index,
                                bytes,
                            );
                        }
                    }
                }
            }
        }
        // ---------------- transient interruptions
        let reference = match (rosu_map::from_bytes::<Trace>(bytes), rosu_map::from_bytes::<Beatmap>(bytes)) {
            (Ok(t), Ok(m)) => (t, m),
            _ => {
                ctx.violation("err_from_memory", "decode of the unfaulted bytes failed".into(), index, bytes);
                return;
            }
        };
        for _ in 0..8 {
            let s = gen::random_schedule(r, true);
            let mut rd = ChunkReader::new(bytes, s.sizes.clone(), s.interrupts.clone());
            let res = Trace::decode(&mut rd);
            ctx.add("interrupts_fired", rd.interrupts_fired);
            faults += rd.interrupts_fired;
            match res {
                Ok(t) if t == reference.0 => {}
                Ok(_) => ctx.violation("interrupt_changes_result", format!("transient Interrupted results changed the outcome ({})", s.describe()), index, bytes),
                Err(e) => ctx.violation("interrupt_surfaced", format!("transient Interrupted surfaced as {e:?} ({})", s.describe()), index, bytes),
            }
        }
        // ---------------- writer faults
        let mut map = reference.1;
        // every third map is edited through its public fields first, so that the encoder's fall-back branches
        // (fewer node sample sets than nodes, objects without samples) are written under faults as well
        if index % 3 == 1 {
            let mut edited = 0u64;
            for h in map.hit_objects.iter_mut() {
                if let rosu_map::section::hit_objects::HitObjectKind::Slider(s) = &mut h.kind {
                    match r.below(4) {
                        0 => {
                            let k = r.below(s.node_samples.len() + 1);
                            s.node_samples.truncate(k);
                            edited += 1;
                        }
                        1 => {
                            s.repeat_count += 1 + r.below(2) as i32;
                            edited += 1;
                        }
                        _ => {}
                    }
                } else if r.chance(1, 6) {
                    h.samples.clear();
                    edited += 1;
                }
            }
            ctx.add("objects_edited_before_encoding", edited);
        }
        if encode_cost(&mut map) > ENCODE_COST_LIMIT {
            ctx.count("skipped_resource_bound");
            return;
        }
        let Ok(full) = map.encode_to_string() else {
            ctx.violation("encode_err_in_memory", "encode_to_string failed".into(), index, bytes);
            return;
        };
        let total = full.len();
        let woffs: Vec<usize> = if total <= max_offsets {
            (0..total).collect()
        } else {
            let mut v: Vec<usize> = (0..max_offsets.saturating_sub(3)).map(|_| r.below(total)).collect();
            v.extend_from_slice(&[0, 1.min(total - 1), total - 1]);
            v.sort_unstable();
            v.dedup();
            v
        };
        for &o in &woffs {
            for mode in [WriteFault::Error, WriteFault::Zero] {
                let mut w = FaultWriter::new(mode, o);
                if o % 3 == 1 {
                    w.short = vec![1, 5, 3];
                }
                let res = map.encode(&mut w);
                if w.fired == 0 {
                    ctx.count("writer_fault_not_reached");
                    continue;
                }
                faults += 1;
                ctx.count(&format!("writer_fault_{mode:?}"));
                match res {
                    Ok(()) => ctx.violation(
                        "write_fault_swallowed",
                        format!("writer {mode:?} after {o} of {total} bytes but encode returned Ok"),
                        index,
                        bytes,
                    ),
                    Err(e) => {
                        let ok = match mode {
                            WriteFault::Error => e.get_ref().is_some_and(|i| i.to_string() == FAULT_MARK),
                            _ => e.kind() == ErrorKind::WriteZero,
                        };
                        if !ok {
                            ctx.violation("write_fault_replaced", format!("writer {mode:?} after {o} bytes surfaced as unrelated error {e:?}"), index, bytes);
                        }
                        if w.out.as_slice() != &full.as_bytes()[..w.out.len()] {
                            ctx.violation("write_prefix_differs", format!("bytes accepted before the fault at {o} are not a prefix of the full encoding"), index, bytes);
                        }
                    }
                }
            }
        }
        // flush-only failure
        {
            let mut w = FaultWriter::new(WriteFault::Flush, 0);
            let res = map.encode(&mut w);
            faults += 1;
            ctx.count("writer_fault_Flush");
            if w.flushed == 0 {
                ctx.violation("flush_missing", "encode never flushed the writer".into(), index, bytes);
            } else if res.is_ok() {
                ctx.violation("flush_fault_swallowed", "flush failed but encode returned Ok".into(), index, bytes);
            }
        }
        // short writes and transient interruptions must not change the output
        for j in 0..(if ctx.quick() { 6 } else { 50 }) {
            let mut w = FaultWriter::new(WriteFault::None, usize::MAX);
            w.short = (0..1 + r.below(6)).map(|_| 1 + r.below(if j % 2 == 0 { 4 } else { 40 })).collect();
            w.interrupts = (0..r.below(5)).map(|_| 1 + r.below(200)).collect();
            ctx.count("short_write_schedules");
            match map.encode(&mut w) {
                Ok(()) => {
                    if w.out != full.as_bytes() {
                        ctx.violation("short_writes_change_output", format!("short writes {:?} / interrupts {:?} changed the encoded bytes", w.short, w.interrupts), index, bytes);
                    }
                }
                Err(e) => ctx.violation("short_write_error", format!("short writes / Interrupted surfaced as {e:?}"), index, bytes),
            }
        }
        let _ = cmp::full(&map);
    });
    ctx.add("faults_injected", faults);
    // one evaluation per injected fault; distinct by (file digest, fault ordinal)
    let d = fnv64(bytes);
    for f in 0..faults.min(200_000) {
        ctx.eval(crate::util::mix64(d ^ f), true);
    }
    if faults == 0 {
        ctx.eval(d, false);
    }
    if ctx.want_sample() {
        ctx.sample(J::O(vec![
            ("class".into(), J::s(class)),
            ("file_len".into(), J::U(len as u64)),
            ("faults_injected".into(), J::U(faults)),
            ("read_offsets".into(), J::U(offsets.len() as u64)),
            ("input_head".into(), J::s(show(bytes, 120))),
        ]));
    }
}
