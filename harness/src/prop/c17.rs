//! C17 — computed paths follow the exact curves within tolerance.
//!
//! Refuting events: a path vertex farther than the bound from the exact curve, or an
//! exact curve sample farther than the bound from the path polyline; wrong first /
//! last point of a segment; an arc where a Bezier fallback is mandated or vice
//! versa; a joint vertex produced identically by two segments appearing twice.
//! Bounds are derived from the approximation tolerances (see DESIGN.md §2 C17).

use std::f64::consts::PI;

use rosu_map::section::{
    general::GameMode,
    hit_objects::{Curve, CurveBuffers, PathControlPoint, PathType},
};

use crate::{
    gen::paths::cp,
    util::{mix64, Ctx, Rng, J},
};

type P = (f64, f64);

fn seg_dist(p: P, a: P, b: P) -> f64 {
    let (dx, dy) = (b.0 - a.0, b.1 - a.1);
    let l2 = dx * dx + dy * dy;
    let t = if l2 == 0.0 { 0.0 } else { (((p.0 - a.0) * dx + (p.1 - a.1) * dy) / l2).clamp(0.0, 1.0) };
    let (x, y) = (a.0 + t * dx - p.0, a.1 + t * dy - p.1);
    (x * x + y * y).sqrt()
}

fn poly_dist(p: P, poly: &[P]) -> f64 {
    if poly.len() == 1 {
        return seg_dist(p, poly[0], poly[0]);
    }
    poly.windows(2).map(|w| seg_dist(p, w[0], w[1])).fold(f64::INFINITY, f64::min)
}

/// max over the ordered points `a` of the distance to the ordered polyline `b`; a moving
/// window gives an upper bound cheaply, the full scan is used only when that exceeds `tol`
fn directed(a: &[P], b: &[P], tol: f64) -> f64 {
    if b.is_empty() {
        return f64::INFINITY;
    }
    let nb = b.len();
    let mut worst = 0.0f64;
    let mut j = 0usize;
    for (i, p) in a.iter().enumerate() {
        // expected position by parameter, searched in a window
        let guess = if a.len() > 1 { i * (nb - 1) / (a.len() - 1) } else { 0 };
        let centre = if i == 0 { guess } else { j };
        let w = (nb / 20).max(24);
        let lo = centre.saturating_sub(w).min(guess.saturating_sub(w));
        let hi = (centre + w).max(guess + w).min(nb - 1);
        let mut best = f64::INFINITY;
        let mut bj = lo;
        for k in lo..hi.max(lo + 1).min(nb) {
            let d = if k + 1 < nb { seg_dist(*p, b[k], b[k + 1]) } else { seg_dist(*p, b[k], b[k]) };
            if d < best {
                best = d;
                bj = k;
            }
        }
        if best > tol * 0.2 {
            // the window may have missed the closest piece: take the true distance
            best = poly_dist(*p, b);
        } else {
            j = bj;
        }
        worst = worst.max(best);
    }
    worst
}

fn bez(c: &[P], t: f64) -> P {
    let mut v = c.to_vec();
    let n = v.len();
    for k in 1..n {
        for i in 0..n - k {
            v[i] = (v[i].0 * (1.0 - t) + v[i + 1].0 * t, v[i].1 * (1.0 - t) + v[i + 1].1 * t);
        }
    }
    v[0]
}

fn mk(pts: &[P], t: PathType) -> Vec<PathControlPoint> {
    pts.iter().enumerate().map(|(i, p)| cp(p.0 as f32, p.1 as f32, if i == 0 { Some(t) } else { None })).collect()
}

fn ulp32(m: f64) -> f64 {
    f64::from(m.abs().max(1.0) as f32 * f32::EPSILON)
}

fn as_path(c: &Curve) -> Vec<P> {
    c.path().iter().map(|p| (f64::from(p.x), f64::from(p.y))).collect()
}

fn f32r(v: f64) -> f64 {
    f64::from(v as f32)
}

fn digest(pts: &[P], kind: u64) -> u64 {
    let mut d = mix64(kind);
    for p in pts {
        d = mix64(d ^ p.0.to_bits().rotate_left(17) ^ p.1.to_bits());
    }
    d
}

pub fn run(ctx: &mut Ctx) {
    let mut bufs = CurveBuffers::default();
    // exhaustive three-point arcs on the integer grid [-4,4]^2 (first point at the origin)
    let mut idx = 0u64;
    for bx in -4..=4 {
        for by in -4..=4 {
            for cx in -4..=4 {
                for cy in -4..=4 {
                    idx += 1;
                    if idx % ctx.nshards != ctx.shard {
                        continue;
                    }
                    for scale in [1.0, 7.0, 60.0] {
                        arc_case(ctx, idx, (0.0, 0.0), (f64::from(bx) * scale, f64::from(by) * scale), (f64::from(cx) * scale, f64::from(cy) * scale), &mut bufs);
                    }
                }
            }
        }
    }
    ctx.report.exhaustive = Some(true);
    ctx.note("exhaustive part: all three-point perfect curves with points on the integer grid [-4,4]^2 at scales 1, 7 and 60 px");

    let n = ctx.n(100_000, 3_000_000);
    for i in 0..n {
        if ctx.only.is_some_and(|k| k != i) {
            continue;
        }
        let mut r = ctx.rng_for(0, i);
        let index = 1 << 56 | i;
        if (i / 8) % 2 == 1 {
            // the shared buffers still hold an unrelated borrowed curve
            crate::gen::paths::dirty(&mut ctx.rng_for(9, i), &mut bufs);
            ctx.count("computed_after_a_borrowed_curve");
        }
        match i % 8 {
            0 | 1 | 2 => random_arc(ctx, index, &mut r, &mut bufs),
            3 | 4 => bezier_case(ctx, index, &mut r, &mut bufs),
            5 => catmull_case(ctx, index, &mut r, &mut bufs),
            6 => linear_case(ctx, index, &mut r, &mut bufs),
            _ => joint_case(ctx, index, &mut r, &mut bufs),
        }
        if ctx.out_of_time() {
            break;
        }
    }
}

// ---------------------------------------------------------------- arcs

fn random_arc(ctx: &mut Ctx, index: u64, r: &mut Rng, bufs: &mut CurveBuffers) {
    let scale = [5.0, 50.0, 500.0, 4096.0][r.below(4)];
    let integer = r.chance(1, 2);
    let g = |r: &mut Rng| {
        let v = (r.f() * 2.0 - 1.0) * scale;
        if integer {
            v.round()
        } else {
            f32r(v)
        }
    };
    let mut a = (0.0, 0.0);
    let mut b = (g(r), g(r));
    let mut c = (g(r), g(r));
    match r.below(8) {
        3 => {
            // exactly collinear points whose determinant products are not representable in single precision
            // (the two products then round alike, a fused multiply-add does not): the fallback is mandated
            if r.chance(1, 2) {
                // b arbitrary, c = 2b or 4b or -b (exact in binary floating point)
                let k = [2.0, 4.0, -1.0, 0.5][r.below(4)];
                c = (b.0 * k, b.1 * k);
            } else {
                // integer lattice line starting near a corner of the coordinate range and running inwards:
                // differences of several thousand px, so their products exceed 2^24
                let corner = |r: &mut Rng| {
                    let sign = if r.chance(1, 2) { 1.0 } else { -1.0 };
                    sign * r.range(3000, 4097) as f64
                };
                a = (corner(r), corner(r));
                let d = (-a.0.signum() * r.range(600, 1151) as f64, -a.1.signum() * r.range(600, 1151) as f64);
                let (i, j) = (r.range(1, 4) as f64, r.range(4, 7) as f64);
                b = (a.0 + i * d.0, a.1 + i * d.1);
                c = (a.0 + j * d.0, a.1 + j * d.1);
            }
        }
        4 => {
            if r.chance(1, 2) {
                // almost collinear triple far from the origin: the determinant of the differences is a small
                // integer, the circumcircle terms built from the absolute coordinates cancel in single precision
                fn egcd(a: i64, b: i64) -> (i64, i64, i64) {
                    if b == 0 {
                        (a, 1, 0)
                    } else {
                        let (g, s, t) = egcd(b, a % b);
                        (g, t, s - (a / b) * t)
                    }
                }
                let far = |r: &mut Rng| {
                    let sign = if r.chance(1, 2) { 1.0 } else { -1.0 };
                    sign * r.range(50_000, 250_000) as f64
                };
                a = (far(r), far(r));
                let (p, q) = (r.range(500, 1500), r.range(50, 300));
                let (_, s, t) = egcd(p, q);
                let m = 2 + r.below(2) as i64;
                let k = [-3i64, -2, -1, 1, 2, 3][r.below(6)];
                b = (a.0 + p as f64, a.1 + q as f64);
                c = (a.0 + (m * p - k * t) as f64, a.1 + (m * q + k * s) as f64);
            } else {
                // very flat small arc: sagitta far below the flattening tolerance
                let chord = 1.0 + r.f() * 60.0;
                let sag = [0.001, 0.01, 0.05, 0.09][r.below(4)] * (0.5 + r.f());
                let th = r.f() * 2.0 * PI;
                let rot = |x: f64, y: f64| (f32r(x * th.cos() - y * th.sin()), f32r(x * th.sin() + y * th.cos()));
                b = rot(chord / 2.0, sag);
                c = rot(chord, 0.0);
            }
        }
        0 => {
            // near-collinear
            let t = r.f() * 1.5 - 0.25;
            b = (f32r(c.0 * t + (r.f() - 0.5) * 0.02 * scale.min(50.0)), f32r(c.1 * t));
            if integer {
                b = (b.0.round(), b.1.round());
            }
        }
        5 => {
            // middle point a few micro-pixels from an end point but off the chord: a tiny, decisively non-zero
            // determinant (between 1e-7 and 1e-3) and a perfectly ordinary circle
            let e = |r: &mut Rng| f32r((1.0 + 9.0 * r.f()) * [1e-6, 1e-5, 3e-5][r.below(3)] * if r.chance(1, 2) { 1.0 } else { -1.0 });
            let len = 20.0 + r.f() * 300.0;
            let th = r.f() * 2.0 * PI;
            c = (f32r(len * th.cos()), f32r(len * th.sin()));
            b = if r.chance(1, 2) { (e(r), e(r)) } else { (f32r(c.0 + e(r)), f32r(c.1 + e(r))) };
        }
        1 => {
            // threshold-riding: radius/angle so that the sub-point count sits just below an integer
            let rad = 20.0 + r.f() * 300.0;
            let k = 3.0 + r.below(40) as f64;
            let step = 2.0 * (1.0f64 - 0.1 / rad).acos();
            let range = (k - 0.02 * r.f()) * step;
            if range < 2.0 * PI - 0.1 {
                let ctr = (0.0 - rad, 0.0);
                let pt = |th: f64| (f32r(ctr.0 + rad * th.cos()), f32r(ctr.1 + rad * th.sin()));
                b = pt(range / 2.0);
                c = pt(range);
            }
        }
        2 => {
            // huge radius: almost straight, must fall back to a Bezier when the arc would need >= 1000 points
            let len = 2000.0 + r.f() * 2000.0;
            let sag = if r.chance(1, 2) { [0.001, 0.01, 0.5, 5.0, 1.0, 2.0][r.below(6)] } else { 0.3 + 2.7 * r.f() };
            b = (f32r(len / 2.0), f32r(sag));
            c = (f32r(len), 0.0);
        }
        _ => {}
    }
    arc_case(ctx, index, a, b, c, bufs);
}

fn arc_case(ctx: &mut Ctx, index: u64, a: P, b: P, c: P, bufs: &mut CurveBuffers) {
    let w = format!("perfect curve through {a:?} {b:?} {c:?}");
    let mut judged = false;
    ctx.case(index, w.as_bytes(), |ctx| {
        let pts = mk(&[a, b, c], PathType::PERFECT_CURVE);
        let curve = Curve::new(GameMode::Osu, &pts, None, bufs);
        let path = as_path(&curve);
        if path.iter().any(|p| !p.0.is_finite() || !p.1.is_finite()) {
            ctx.violation("non_finite", format!("path contains a non-finite point ({} points)", path.len()), index, w.as_bytes());
            return;
        }
        let cross = (b.1 - a.1) * (c.0 - a.0) - (b.0 - a.0) * (c.1 - a.1);
        let m = [a.0.abs(), a.1.abs(), b.0.abs(), b.1.abs(), c.0.abs(), c.1.abs()].iter().copied().fold(1.0, f64::max);
        // single-precision noise of the determinant: relative rounding of the two products (the differences
        // of exactly representable coordinates are themselves correctly rounded)
        let eps32 = f64::from(f32::EPSILON) / 2.0;
        let noise = 16.0 * eps32 * (((b.1 - a.1) * (c.0 - a.0)).abs() + ((b.0 - a.0) * (c.1 - a.1)).abs());
        let bezier_like = || {
            let ex: Vec<P> = (0..=400).map(|i| bez(&[a, b, c], f64::from(i) / 400.0)).collect();
            let tol = 0.3 + 64.0 * ulp32(m);
            directed(&path, &ex, tol) < tol && directed(&ex, &path, tol) < tol
        };
        if cross.abs() <= noise.max(f64::from(f32::EPSILON)) {
            if cross == 0.0 {
                // exactly collinear: the fallback is mandated
                if !bezier_like() && !(a == b || b == c || a == c) {
                    ctx.violation("collinear_not_bezier", "collinear perfect curve is not the Bezier fallback".into(), index, w.as_bytes());
                } else {
                    ctx.count("arc_collinear_fallback");
                    judged = true;
                }
            } else {
                ctx.count("arc_undecidable_collinearity");
            }
            return;
        }
        let d = 2.0 * (a.0 * (b.1 - c.1) + b.0 * (c.1 - a.1) + c.0 * (a.1 - b.1));
        let (a2, b2, c2) = (a.0 * a.0 + a.1 * a.1, b.0 * b.0 + b.1 * b.1, c.0 * c.0 + c.1 * c.1);
        let ctr = ((a2 * (b.1 - c.1) + b2 * (c.1 - a.1) + c2 * (a.1 - b.1)) / d, (a2 * (c.0 - b.0) + b2 * (a.0 - c.0) + c2 * (b.0 - a.0)) / d);
        let rad = ((a.0 - ctr.0).powi(2) + (a.1 - ctr.1).powi(2)).sqrt();
        let ts = (a.1 - ctr.1).atan2(a.0 - ctr.0);
        let mut te = (c.1 - ctr.1).atan2(c.0 - ctr.0);
        while te < ts {
            te += 2.0 * PI;
        }
        let mut range = te - ts;
        let mut dir = 1.0;
        let ortho = (c.1 - a.1, -(c.0 - a.0));
        if ortho.0 * (b.0 - a.0) + ortho.1 * (b.1 - a.1) < 0.0 {
            dir = -1.0;
            range = 2.0 * PI - range;
        }
        let nexp = if 2.0 * rad <= 0.1 { 2.0 } else { (range / (2.0 * (1.0 - 0.1 / rad).acos())).ceil().max(2.0) };
        // single-precision conditioning of the circumcentre, in px: rounding of the numerator sums and of the
        // denominator, each relative to the magnitude of its own terms (not of the largest coordinate)
        let s_d = 2.0 * ((a.0 * (b.1 - c.1)).abs() + (b.0 * (c.1 - a.1)).abs() + (c.0 * (a.1 - b.1)).abs());
        let s_nx = (a2 * (b.1 - c.1)).abs() + (b2 * (c.1 - a.1)).abs() + (c2 * (a.1 - b.1)).abs();
        let s_ny = (a2 * (c.0 - b.0)).abs() + (b2 * (a.0 - c.0)).abs() + (c2 * (b.0 - a.0)).abs();
        let cmax = ctr.0.abs().max(ctr.1.abs());
        let cond = 32.0 * eps32 * (s_nx.max(s_ny) / d.abs() + cmax * s_d / d.abs()) + ulp32(rad + m) * 8.0;
        // beyond a radius of about 3.3e6 px the single-precision term 1 - 0.1/r is exactly 1 (the step angle
        // vanishes): the legacy code draws such "enormous" arcs as a chord or a Bezier, both accepted here
        if nexp > 1015.0 || rad >= 3.3e6 {
            if bezier_like() {
                ctx.count("arc_enormous_fallback");
                judged = true;
            } else if nexp > 1e4 && cond < 0.01 {
                ctx.violation("enormous_not_bezier", format!("arc would need about {nexp} points (>= 1000) but the path is not the Bezier fallback ({} points)", path.len()), index, w.as_bytes());
            } else {
                ctx.count("arc_near_fallback_threshold");
            }
            return;
        }
        if nexp >= 985.0 {
            // only structural checks: within the noise of the sub-point count either rendering is acceptable
            ctx.count("arc_ill_conditioned");
            return;
        }
        if cond > 0.05 && m > 8192.0 {
            // outside the coordinate range the property speaks about: structural checks only
            ctx.count("arc_ill_conditioned");
            return;
        }
        if cond > 0.05 {
            // The circumcentre is poorly determined in single precision (long shallow arcs, large coordinates), so
            // "every vertex on the circle" cannot be demanded. The *shape* still can: a centre error d along the
            // axis moves the arc by at most d (1 - cos(range/2)), which is tiny exactly where this happens.
            let exact: Vec<P> = (0..=720).map(|i| {
                let th = ts + dir * range * f64::from(i) / 720.0;
                (ctr.0 + rad * th.cos(), ctr.1 + rad * th.sin())
            }).collect();
            // for radii of millions of px the single-precision term 1 - 0.1/r is quantised in steps of 2^-24, which
            // acts like a flattening tolerance of up to 0.1 + r 2^-24 px; the sub-point count follows from that
            let tol_eff = 0.1 + rad * 2f64.powi(-24);
            let n_eff = (range / (2.0 * (1.0 - tol_eff / rad).acos())).ceil().max(2.0);
            let nn = n_eff.min(nexp).max(2.0);
            let slack = 0.05 + 64.0 * ulp32(m) + 2.0 * cond * (1.0 - (range / 2.0).cos()).min(1.0);
            let bound = 1.5 * tol_eff * (nn / (nn - 1.0)).powi(2) + slack;
            let dev = directed(&exact, &path, bound).max(directed(&path, &exact, bound));
            ctx.count("arcs_judged_by_shape");
            ctx.maxf("arc_shape_worst_over_bound", dev / bound);
            judged = true;
            if dev > bound {
                ctx.violation("arc_deviation", format!("the path ({} points) is {dev:.4} px from the exact arc (bound {bound:.4}); radius {rad:.1}, expected about {nexp} points, centre conditioning {cond:.3}", path.len()), index, w.as_bytes());
            }
            return;
        }
        // must be an arc
        let tol = 0.01 + cond * 2.0;
        let mut worst = 0.0f64;
        let mut why = String::new();
        for p in &path {
            let e = (((p.0 - ctr.0).powi(2) + (p.1 - ctr.1).powi(2)).sqrt() - rad).abs();
            if e / tol > worst {
                worst = e / tol;
                why = format!("vertex {p:?} is {e:.5} off the circle (tolerance {tol:.5})");
            }
        }
        let e0 = ((path[0].0 - a.0).powi(2) + (path[0].1 - a.1).powi(2)).sqrt();
        let last = path[path.len() - 1];
        let e1 = ((last.0 - c.0).powi(2) + (last.1 - c.1).powi(2)).sqrt();
        if e0.max(e1) / tol > worst {
            worst = e0.max(e1) / tol;
            why = format!("end points are {e0:.5} / {e1:.5} off the first / last control point (tolerance {tol:.5})");
        }
        let exact: Vec<P> = (0..=720).map(|i| {
            let th = ts + dir * range * f64::from(i) / 720.0;
            (ctr.0 + rad * th.cos(), ctr.1 + rad * th.sin())
        }).collect();
        // The library evaluates the point count in f32: `1 - 0.1/r` carries a rounding error of about
        // 6e-8, i.e. a relative error of about 3e-7 * r in the step angle. When range/step is within that
        // noise of an integer the count may legitimately come out one lower, so the bound uses the lower count.
        let noise = 6e-7 * rad + 1e-6;
        let n_low = if 2.0 * rad <= 0.1 { 2.0 } else { (range / (2.0 * (1.0 - 0.1 / rad).acos()) * (1.0 - noise)).ceil().max(2.0) };
        let nn = n_low.min(nexp).max(2.0);
        let sag_tol = 0.1 * (nn / (nn - 1.0)).powi(2) * 1.02 + tol;
        let dev = directed(&exact, &path, sag_tol);
        if dev / sag_tol > worst {
            worst = dev / sag_tol;
            why = format!("the exact arc is {dev:.4} px from the path (bound {sag_tol:.4}, {} path points, expected about {nexp})", path.len());
        }
        ctx.count("arcs_judged_tightly");
        ctx.maxf("arc_worst_over_bound", worst);
        judged = true;
        if worst > 1.0 {
            ctx.violation("arc_deviation", format!("{why}; radius {rad:.3}, conditioning {cond:.5}"), index, w.as_bytes());
        }
    });
    ctx.eval(digest(&[a, b, c], 1), judged);
    if ctx.want_sample() && judged && index % 73 == 29 {
        ctx.sample(J::O(vec![("shape".into(), J::s(w))]));
    }
}

// ---------------------------------------------------------------- Bezier

fn bezier_case(ctx: &mut Ctx, index: u64, r: &mut Rng, bufs: &mut CurveBuffers) {
    let n = 2 + r.below(9);
    let scale = [30.0, 300.0, 4096.0][r.below(3)];
    let mut cps: Vec<P> = (0..n).map(|i| if i == 0 { (0.0, 0.0) } else { (f32r((r.f() * 2.0 - 1.0) * scale), f32r((r.f() * 2.0 - 1.0) * scale)) }).collect();
    if r.chance(1, 3) && n == 3 {
        // threshold-riding quadratic: second difference after k subdivisions lands around the flatness limit
        let k = r.below(6) as i32;
        let target = 0.5 * (0.6 + r.f()) * 4f64.powi(k);
        let len = 50.0 + r.f() * 400.0;
        cps = vec![(0.0, 0.0), (f32r(len / 2.0), f32r(target / 2.0)), (f32r(len), 0.0)];
    }
    let w = format!("bezier {cps:?}");
    ctx.case(index, w.as_bytes(), |ctx| {
        let curve = Curve::new(GameMode::Osu, &mk(&cps, PathType::BEZIER), None, bufs);
        if cps.len() != 3 {
            // a perfect-curve segment that does not have exactly three points is the Bezier of its points
            let as_perfect = Curve::new(GameMode::Osu, &mk(&cps, PathType::PERFECT_CURVE), None, bufs);
            ctx.count("perfect_curves_with_other_than_three_points");
            if as_path(&as_perfect) != as_path(&curve) {
                ctx.violation("perfect_not_bezier", format!("a perfect-curve segment with {} points is not drawn as the Bezier of its points ({} vs {} path points)", cps.len(), as_perfect.path().len(), curve.path().len()), index, w.as_bytes());
            }
        }
        let path = as_path(&curve);
        let deg = (n - 1) as f64;
        let m = cps.iter().map(|p| p.0.abs().max(p.1.abs())).fold(1.0, f64::max);
        let max_d2 = cps.windows(3).map(|t| ((t[0].0 - 2.0 * t[1].0 + t[2].0).powi(2) + (t[0].1 - 2.0 * t[1].1 + t[2].1).powi(2)).sqrt()).fold(0.0, f64::max);
        let samples = 2000usize;
        let sag_exact = deg * (deg - 1.0).max(0.0) * max_d2 / (8.0 * (samples * samples) as f64);
        // flatness test |second difference| <= 0.5 on pieces + the final 1/4-1/2-1/4 smoothing
        let bound = 0.5 * ((deg / 2.0).floor() * (deg / 2.0).ceil() / (2.0 * deg)) + 0.125 + sag_exact + 300.0 * ulp32(m);
        let exact: Vec<P> = (0..=samples).map(|i| bez(&cps, i as f64 / samples as f64)).collect();
        let d1 = directed(&path, &exact, bound);
        let d2 = directed(&exact, &path, bound);
        ctx.count("beziers_judged");
        ctx.maxf("bezier_worst_over_bound", d1.max(d2) / bound);
        ctx.maxf(&format!("bezier_worst_over_bound_n{n}"), d1.max(d2) / bound);
        if d1.max(d2) / bound > 0.9 && std::env::var("RVMON_DEBUG").is_ok() {
            eprintln!("BEZ n {n} d1 {d1} d2 {d2} bound {bound} sag {sag_exact} m {m} cps {cps:?}");
        }
        if path.first() != Some(&cps[0]) || path.last() != Some(&cps[n - 1]) {
            ctx.violation("bezier_end_points", format!("path runs {:?} -> {:?}, control points {:?} -> {:?}", path.first(), path.last(), cps[0], cps[n - 1]), index, w.as_bytes());
        }
        if d1 > bound || d2 > bound {
            ctx.violation("bezier_deviation", format!("path is {d1:.4} px from the exact curve / exact curve {d2:.4} px from the path; bound {bound:.4} ({} path points)", path.len()), index, w.as_bytes());
        }
    });
    ctx.eval(digest(&cps, 2), true);
    if ctx.want_sample() && index % 79 == 31 {
        ctx.sample(J::O(vec![("shape".into(), J::s(w))]));
    }
}

// ---------------------------------------------------------------- Catmull

fn catmull_case(ctx: &mut Ctx, index: u64, r: &mut Rng, bufs: &mut CurveBuffers) {
    let n = 2 + r.below(7);
    let scale = [50.0, 500.0, 4096.0][r.below(3)];
    let mut cps: Vec<P> = (0..n).map(|i| if i == 0 { (0.0, 0.0) } else { (((r.f() * 2.0 - 1.0) * scale).round(), ((r.f() * 2.0 - 1.0) * scale).round()) }).collect();
    if r.chance(1, 6) && n > 2 {
        let k = 1 + r.below(n - 1);
        cps[k] = cps[k - 1]; // repeated point
    }
    let w = format!("catmull {cps:?}");
    ctx.case(index, w.as_bytes(), |ctx| {
        let get = |i: isize| -> Option<P> { if i >= 0 && (i as usize) < n { Some(cps[i as usize]) } else { None } };
        // exact uniform Catmull-Rom with the legacy end-point mirroring
        let mut exact = vec![];
        let mut bound = 0f64;
        for i in 0..n - 1 {
            let v2 = cps[i];
            let v1 = get(i as isize - 1).unwrap_or(v2);
            let v3 = get(i as isize + 1).unwrap_or((v2.0 * 2.0 - v1.0, v2.1 * 2.0 - v1.1));
            let v4 = get(i as isize + 2).unwrap_or((v3.0 * 2.0 - v2.0, v3.1 * 2.0 - v2.1));
            let co = |a: f64, b: f64, c: f64, d: f64| (2.0 * b, -a + c, 2.0 * a - 5.0 * b + 4.0 * c - d, -a + 3.0 * (b - c) + d);
            let (x1, x2, x3, x4) = co(v1.0, v2.0, v3.0, v4.0);
            let (y1, y2, y3, y4) = co(v1.1, v2.1, v3.1, v4.1);
            let dd = |t: f64| ((x3 + 3.0 * x4 * t).powi(2) + (y3 + 3.0 * y4 * t).powi(2)).sqrt();
            bound = bound.max(dd(0.0).max(dd(1.0)) / (8.0 * 2500.0));
            for k in 0..=400 {
                let t = f64::from(k) / 400.0;
                exact.push((0.5 * (x1 + x2 * t + x3 * t * t + x4 * t * t * t), 0.5 * (y1 + y2 * t + y3 * t * t + y4 * t * t * t)));
            }
        }
        let m = cps.iter().map(|p| p.0.abs().max(p.1.abs())).fold(1.0, f64::max);
        // the 6 px thinning of Catmull paths exists in osu! mode only
        for mode in [GameMode::Taiko, GameMode::Osu, GameMode::Catch, GameMode::Mania] {
            let curve = Curve::new(mode, &mk(&cps, PathType::CATMULL), None, bufs);
            let path = as_path(&curve);
            let extra = if mode == GameMode::Osu { 6.0 } else { 0.0 };
            // chord error of 50 pieces per span; osu! mode keeps a vertex only every > 6 px
            let tol = bound * 1.05 + 256.0 * ulp32(m) + extra + if extra > 0.0 { bound * 4.0 + 0.5 } else { 0.0 } + bound / 64.0;
            let d1 = directed(&path, &exact, tol);
            let d2 = directed(&exact, &path, tol);
            ctx.count(if extra > 0.0 { "catmull_osu_judged" } else { "catmull_judged" });
            ctx.maxf("catmull_worst_over_bound", d1.max(d2) / tol);
            ctx.maxf(&format!("catmull_worst_over_bound_{mode:?}"), d1.max(d2) / tol);
            if d1.max(d2) / tol > 0.9 && std::env::var("RVMON_DEBUG").is_ok() {
                eprintln!("CAT {mode:?} d1 {d1} d2 {d2} tol {tol} bound {bound} m {m} cps {cps:?}");
            }
            let first_ok = path.first().is_some_and(|p| (p.0 - cps[0].0).abs() + (p.1 - cps[0].1).abs() <= 64.0 * ulp32(m));
            let last_ok = path.last().is_some_and(|p| (p.0 - cps[n - 1].0).abs() + (p.1 - cps[n - 1].1).abs() <= 256.0 * ulp32(m));
            if !first_ok || !last_ok {
                ctx.violation("catmull_end_points", format!("{mode:?}: path runs {:?} -> {:?}, control points {:?} -> {:?}", path.first(), path.last(), cps[0], cps[n - 1]), index, w.as_bytes());
            }
            if d1 > tol || d2 > tol {
                ctx.violation("catmull_deviation", format!("{mode:?}: path is {d1:.4} px from the exact spline / spline {d2:.4} px from the path; bound {tol:.4} ({} path points)", path.len()), index, w.as_bytes());
            }
        }
    });
    ctx.eval(digest(&cps, 3), true);
}

// ---------------------------------------------------------------- linear

fn linear_case(ctx: &mut Ctx, index: u64, r: &mut Rng, bufs: &mut CurveBuffers) {
    let n = 2 + r.below(8);
    let cps: Vec<P> = (0..n).map(|i| if i == 0 { (0.0, 0.0) } else { (f32r((r.f() * 2.0 - 1.0) * 4096.0), f32r((r.f() * 2.0 - 1.0) * 4096.0)) }).collect();
    let untyped = r.chance(1, 3);
    let w = format!("linear{} {cps:?}", if untyped { " (untyped first point)" } else { "" });
    ctx.case(index, w.as_bytes(), |ctx| {
        for mode in [GameMode::Osu, GameMode::Mania, GameMode::Catch, GameMode::Taiko] {
            let mut pts = mk(&cps, PathType::LINEAR);
            if untyped {
                // a path whose first control point carries no type is a straight polyline by convention
                pts[0].path_type = None;
                ctx.count("linear_untyped_start");
            }
            let curve = Curve::new(mode, &pts, None, bufs);
            ctx.count("linear_judged");
            if as_path(&curve) != cps {
                ctx.violation("linear_not_polyline", format!("linear path {:?} is not the control polygon", curve.path()), index, w.as_bytes());
            }
        }
    });
    ctx.eval(digest(&cps, 4), true);
}

// ---------------------------------------------------------------- joints

/// Segments ending exactly at their last control point joined to segments starting exactly at
/// their first: the joint vertex appears once; the whole path is the concatenation of the parts.
fn joint_case(ctx: &mut Ctx, index: u64, r: &mut Rng, bufs: &mut CurveBuffers) {
    let kinds = [PathType::LINEAR, PathType::BEZIER, PathType::CATMULL, PathType::PERFECT_CURVE];
    let nseg = 2 + r.below(3);
    let mode = [GameMode::Osu, GameMode::Taiko, GameMode::Catch, GameMode::Mania][r.below(4)];
    let mut all: Vec<PathControlPoint> = Vec::new();
    let mut parts: Vec<Vec<PathControlPoint>> = Vec::new();
    let mut last = (0.0f32, 0.0f32);
    for s in 0..nseg {
        // later segments must start exactly where they say (no arcs), the first may be anything
        let ty = if s == 0 { kinds[r.below(4)] } else { kinds[r.below(3)] };
        let np = if ty == PathType::PERFECT_CURVE { 2 } else { 1 + r.below(4) };
        let mut seg = vec![cp(last.0, last.1, Some(ty))];
        for _ in 0..np {
            last = (r.range(-300, 600) as f32, r.range(-300, 500) as f32);
            seg.push(cp(last.0, last.1, None));
        }
        if s == 0 {
            all.extend_from_slice(&seg);
        } else {
            all.pop();
            all.extend_from_slice(&seg);
        }
        parts.push(seg);
    }
    let w = format!("{mode:?} {}", crate::obs::cmp::cps_render(&all));
    ctx.case(index, w.as_bytes(), |ctx| {
        let full = Curve::new(mode, &all, None, bufs);
        let mut expected: Vec<rosu_map::util::Pos> = Vec::new();
        for (k, seg) in parts.iter().enumerate() {
            let part = Curve::new(mode, seg, None, bufs);
            let p = part.path();
            if k == 0 {
                expected.extend_from_slice(p);
            } else if expected.last() == p.first() {
                expected.extend_from_slice(&p[1..]);
            } else {
                expected.extend_from_slice(p);
            }
        }
        ctx.count("joint_compositions");
        ctx.add("joints_checked", (nseg - 1) as u64);
        if full.path() != expected.as_slice() {
            let k = full.path().iter().zip(&expected).position(|(a, b)| a != b).unwrap_or(full.path().len().min(expected.len()));
            ctx.violation(
                "joint_composition",
                format!("multi-segment path ({} points) is not the concatenation of its segments' paths with identical joint vertices kept once ({} points); first difference at {k}: {:?} vs {:?}", full.path().len(), expected.len(), full.path().get(k), expected.get(k)),
                index,
                w.as_bytes(),
            );
        }
        // each segment starts at its first control point
        for seg in &parts {
            let first = seg[0].pos;
            if !full.path().iter().any(|p| (p.x - first.x).abs() + (p.y - first.y).abs() < 0.05) {
                ctx.violation("segment_start_missing", format!("no path vertex at the segment start {first:?}"), index, w.as_bytes());
            }
        }
    });
    let pts: Vec<P> = all.iter().map(|p| (f64::from(p.pos.x), f64::from(p.pos.y))).collect();
    ctx.eval(digest(&pts, 5), true);
}
