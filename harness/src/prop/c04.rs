//! C04 — the encoder only emits text that its own decoder accepts.
//!
//! Refuting events: an encoding that does not start with `osu file format v<n>`;
//! a section header missing, duplicated or out of canonical order; a non-blank
//! in-section line for which the real decoder reports an error (its own `tracing`
//! event log, and independently the public `parse_<section>` functions); a record
//! count that changes when the text is read back.

use std::collections::BTreeMap;

use rosu_map::{section::hit_objects::HitObjectKind, Beatmap, BeatmapState, DecodeBeatmap, DecodeState};

use crate::{
    gen::Corpus,
    obs::{
        recorder::{header_of, Trace, SECTION_NAMES},
        trlog,
    },
    prop::common::{encode_cost, hostile_input, ENCODE_COST_LIMIT},
    util::{fnv64, show, Ctx, J},
};

const CANONICAL: [u8; 8] = [0, 1, 2, 3, 4, 5, 6, 7];

pub fn run(ctx: &mut Ctx) {
    let corpus = Corpus::load(&ctx.repo);
    if corpus.files.is_empty() {
        ctx.inconclusive(format!("no bundled maps found under {}/resources", ctx.repo));
    }
    if !trlog::ENABLED {
        ctx.note("built without the tracing feature: the event-log oracle is not available in this leg");
    }
    if let Some(lit) = ctx.literal.clone() {
        one_case(ctx, 0, &lit, "literal");
        return;
    }
    if ctx.only.is_none() {
        for (i, (_, bytes)) in corpus.files.iter().enumerate() {
            if (i as u64) % ctx.nshards == ctx.shard {
                one_case(ctx, 1 << 56 | i as u64, bytes, "bundled-whole");
            }
        }
    }
    let n = ctx.n(64_000, 2_000_000);
    for i in 0..n {
        if ctx.only.is_some_and(|k| k != i) {
            continue;
        }
        let mut r = ctx.rng_for(0, i);
        let inp = hostile_input(&mut r, &corpus, 48 * 1024);
        one_case(ctx, i, &inp.bytes, inp.class);
        if ctx.out_of_time() {
            break;
        }
    }
}

fn kind_name(k: &HitObjectKind) -> &'static str {
    match k {
        HitObjectKind::Circle(_) => "circle",
        HitObjectKind::Slider(_) => "slider",
        HitObjectKind::Spinner(_) => "spinner",
        HitObjectKind::Hold(_) => "hold",
    }
}

fn kinds(m: &Beatmap) -> BTreeMap<(String, &'static str), u32> {
    let mut out = BTreeMap::new();
    for h in &m.hit_objects {
        *out.entry((format!("{:?}", h.start_time), kind_name(&h.kind))).or_insert(0) += 1;
    }
    out
}

fn one_case(ctx: &mut Ctx, index: u64, bytes: &[u8], class: &str) {
    ctx.progress(0, index, bytes);
    let mut nontrivial = false;
    ctx.case(index, bytes, |ctx| {
        let Ok(mut m) = rosu_map::from_bytes::<Beatmap>(bytes) else {
            ctx.violation("err_from_memory", "decode failed".into(), index, bytes);
            return;
        };
        let _ = trlog::take();
        if encode_cost(&mut m) > ENCODE_COST_LIMIT {
            ctx.count("skipped_resource_bound");
            return;
        }
        let Ok(enc) = m.encode_to_string() else {
            ctx.violation("encode_err_in_memory", "encode_to_string failed".into(), index, bytes);
            return;
        };
        // the text is the same whatever sink receives it: a sample of the maps is also written through a
        // writer that accepts only a few bytes per call
        if index % 4 == 1 {
            use crate::obs::io::{FaultWriter, WriteFault};
            let mut w = FaultWriter::new(WriteFault::None, usize::MAX);
            w.short = vec![[1usize, 2, 3, 7, 12][(index as usize / 4) % 5]];
            ctx.count("encodings_through_a_short_writing_sink");
            match m.encode(&mut w) {
                Ok(()) if w.out == enc.as_bytes() => {}
                Ok(()) => {
                    let k = w.out.iter().zip(enc.as_bytes()).position(|(a, b)| a != b).unwrap_or(w.out.len().min(enc.len()));
                    ctx.violation("sink_changes_text", format!("a sink accepting {} byte(s) per call received different text than encode_to_string (first difference at byte {k}: {:?})", w.short[0], String::from_utf8_lossy(&enc.as_bytes()[k.saturating_sub(20)..(k + 20).min(enc.len())])), index, bytes);
                    return;
                }
                Err(e) => {
                    ctx.violation("encode_err_in_memory", format!("encode into a short-writing in-memory sink failed: {e:?}"), index, bytes);
                    return;
                }
            }
        }
        // ... and a sample is saved to a file that already holds an earlier (usually longer or shorter) save
        if index % 8 == 3 && !ctx.out.is_empty() {
            let dir = std::path::Path::new(&ctx.out).parent().map(|p| p.to_path_buf()).unwrap_or_else(std::env::temp_dir);
            let path = dir.join(format!("c04-save-{}-{}.osu", std::process::id(), ctx.shard));
            match m.encode_to_path(&path) {
                Ok(()) => {
                    ctx.count("saves_over_an_existing_file");
                    match std::fs::read(&path) {
                        Ok(on_disk) if on_disk == enc.as_bytes() => {}
                        Ok(on_disk) => {
                            ctx.violation("saved_file_differs", format!("encode_to_path over an existing file left {} bytes on disk, the encoding has {}", on_disk.len(), enc.len()), index, bytes);
                            return;
                        }
                        Err(e) => ctx.inconclusive(format!("cannot read back the scratch file {}: {e}", path.display())),
                    }
                }
                Err(e) => ctx.inconclusive(format!("encode_to_path to the scratch file {} failed: {e}", path.display())),
            }
        }
        ctx.count(&format!("class_{class}"));
        ctx.count("encodings_checked");
        nontrivial = !m.hit_objects.is_empty() || !m.control_points.timing_points.is_empty();
        let lines: Vec<&str> = enc.split('\n').collect();

        // ---- version line
        let first = lines.first().copied().unwrap_or("");
        let version_ok = first
            .strip_prefix("osu file format v")
            .is_some_and(|n| n.parse::<i32>().is_ok_and(|v| v == m.format_version));
        if !version_ok {
            ctx.violation("bad_version_line", format!("first line of the encoding is {first:?} (format_version {})", m.format_version), index, bytes);
        }

        // ---- headers: exactly once, canonical order; every other bracketed line is data
        let headers: Vec<u8> = lines.iter().skip(1).filter_map(|l| header_of(l.trim_end())).collect();
        if headers != CANONICAL {
            ctx.violation(
                "bad_headers",
                format!("section headers of the encoding: {:?}", headers.iter().map(|h| SECTION_NAMES[*h as usize]).collect::<Vec<_>>()),
                index,
                bytes,
            );
            return;
        }

        // ---- oracle 1: the implementation's own event log when reading the encoding back
        let m2 = match rosu_map::from_str::<Beatmap>(&enc) {
            Ok(m2) => m2,
            Err(e) => {
                ctx.violation("err_from_memory", format!("decoding the encoding failed: {e:?}"), index, bytes);
                return;
            }
        };
        let log = trlog::take();
        let mut d15_lines = 0usize;
        let mut d17_lines = 0usize;
        if trlog::ENABLED {
            ctx.count("event_logs_inspected");
            for (line, err) in trlog::rejected_lines(&log) {
                if is_d15_line(&line) {
                    d15_lines += 1;
                    continue;
                }
                if is_d17_line(&line) {
                    d17_lines += 1;
                    continue;
                }
                ctx.violation("encoded_line_rejected", format!("the decoder's event log reports an encoded line as rejected: {line:?}: {err}"), index, bytes);
            }
            if log.iter().any(|e| e.starts_with(trlog::VERSION_PREFIX)) {
                ctx.violation("encoded_version_rejected", "the decoder's event log reports the encoded version line as invalid".into(), index, bytes);
            }
        }

        // ---- oracle 2: every in-section line through the public parse functions
        let mut st = BeatmapState::create(m.format_version);
        let mut sec: Option<u8> = None;
        let mut per_section = [0u32; 11];
        let mut d15_direct = 0usize;
        let mut timing_keys = std::collections::HashSet::new();
        for l in lines.iter().skip(1) {
            let l = l.trim_end();
            if l.is_empty() || l.trim_start().starts_with("//") {
                continue;
            }
            if let Some(h) = header_of(l) {
                sec = Some(h);
                continue;
            }
            let Some(s) = sec else {
                ctx.violation("line_before_first_header", format!("non-blank line before the first header: {l:?}"), index, bytes);
                continue;
            };
            per_section[s as usize] += 1;
            ctx.count("encoded_lines_parsed");
            if s == 5 {
                // one line per (time, kind): the reader keeps one timing-change and one inherited line per time, so a
                // second line of a kind at a time already written (-0 and 0 are the same time) would be dropped
                let f: Vec<&str> = l.split(',').collect();
                if let (Some(Ok(t)), Some(k)) = (f.first().map(|t| t.trim().parse::<f64>()), f.get(6)) {
                    let key = ((if t == 0.0 { 0.0f64 } else { t }).to_bits(), k.trim().starts_with('1'));
                    if !timing_keys.insert(key) {
                        ctx.violation("timing_line_shadowed", format!("two {} lines are written for time {t:?}: {l:?} (on read-back only one of them survives)", if key.1 { "timing-change" } else { "inherited" }), index, bytes);
                    }
                }
            }
            let res = match s {
                0 => Beatmap::parse_general(&mut st, l),
                1 => Beatmap::parse_editor(&mut st, l),
                2 => Beatmap::parse_metadata(&mut st, l),
                3 => Beatmap::parse_difficulty(&mut st, l),
                4 => Beatmap::parse_events(&mut st, l),
                5 => Beatmap::parse_timing_points(&mut st, l),
                6 => Beatmap::parse_colors(&mut st, l),
                _ => Beatmap::parse_hit_objects(&mut st, l),
            };
            if let Err(e) = res {
                if s == 7 && is_d15_line(l) {
                    d15_direct += 1;
                    continue;
                }
                if s == 5 && is_d17_line(l) {
                    d17_lines += 1;
                    continue;
                }
                ctx.violation("encoded_line_rejected", format!("parse_{} rejects the encoded line {l:?}: {e:?}", SECTION_NAMES[s as usize].to_lowercase()), index, bytes);
            }
        }
        if d15_lines + d15_direct > 0 {
            ctx.known("D15-natural-length-beyond-131072", "a slider without explicit length whose natural length exceeds 131072 px is written with that length; the decoder rejects the line".into());
        }

        if d17_lines > 0 {
            ctx.known("D17-collected-sample-point-beyond-time-limit", "a sample control point collected at the end of a very slow slider lies beyond 2^31-1 ms; its timing line is written and rejected on read-back".into());
        }

        // ---- oracle 3: record counts survive (Recorder trace + re-decoded values)
        let Ok(t) = rosu_map::from_str::<Trace>(&enc) else { return };
        let mut dispatched = [0u32; 11];
        for (s, _) in &t.calls {
            dispatched[*s as usize] += 1;
        }
        if dispatched != per_section {
            ctx.violation("dispatch_count_mismatch", format!("lines per section walked {per_section:?} vs dispatched by the real driver {dispatched:?}"), index, bytes);
        }
        if per_section[7] as usize != m.hit_objects.len() {
            ctx.violation("object_line_count", format!("{} hit objects but {} lines in [HitObjects]", m.hit_objects.len(), per_section[7]), index, bytes);
        }
        let colour_records = m.custom_combo_colors.len() + m.custom_colors.len();
        if per_section[6] as usize != colour_records {
            ctx.violation("colour_line_count", format!("{colour_records} colours but {} lines in [Colours]", per_section[6]), index, bytes);
        }
        let event_records = m.breaks.len() + usize::from(!m.background_file.is_empty());
        if per_section[4] as usize != event_records {
            ctx.violation("event_line_count", format!("{event_records} event records but {} lines in [Events]", per_section[4]), index, bytes);
        }
        // records that are single lines: what was written is what is read (file names in which the path
        // standardisation produced "//" are defect D16 of C02: cut at the comment marker)
        for (what, a, b) in [("background", &m.background_file, &m2.background_file), ("audio file", &m.audio_file, &m2.audio_file)] {
            if a != b && !a.contains("//") {
                ctx.violation("record_misread", format!("{what} {a:?} is read back as {b:?}"), index, bytes);
            }
        }
        if m2.bookmarks != m.bookmarks {
            ctx.violation("bookmarks_changed", format!("bookmarks {:?} read back as {:?}", m.bookmarks, m2.bookmarks), index, bytes);
        }
        if m2.breaks.len() != m.breaks.len() {
            ctx.violation("break_count_changed", format!("{} breaks read back as {}", m.breaks.len(), m2.breaks.len()), index, bytes);
        }
        if m2.custom_combo_colors.len() != m.custom_combo_colors.len() {
            ctx.violation("combo_colour_count_changed", format!("{} combo colours read back as {}", m.custom_combo_colors.len(), m2.custom_combo_colors.len()), index, bytes);
        }
        {
            // distinct names only: the decoder merges equal names by design
            let mut names: Vec<&str> = m.custom_colors.iter().map(|c| c.name.as_str()).collect();
            names.sort_unstable();
            names.dedup();
            if m2.custom_colors.len() != names.len() {
                ctx.violation("custom_colour_count_changed", format!("{} named colours read back as {}", names.len(), m2.custom_colors.len()), index, bytes);
            }
        }
        // timing groups: every timing point has its own line and survives
        if m2.control_points.timing_points.len() != m.control_points.timing_points.len() {
            ctx.violation(
                "timing_point_count_changed",
                format!("{} timing points read back as {}", m.control_points.timing_points.len(), m2.control_points.timing_points.len()),
                index,
                bytes,
            );
        }
        let (k1, k2) = (kinds(&m), kinds(&m2));
        if k1 != k2 && d15_lines + d15_direct == 0 {
            let lost: Vec<_> = k1.iter().filter(|(k, v)| k2.get(*k) != Some(*v)).take(3).collect();
            let gained: Vec<_> = k2.iter().filter(|(k, v)| k1.get(*k) != Some(*v)).take(3).collect();
            ctx.violation("object_kinds_changed", format!("objects by (time, kind) differ after read-back: before {lost:?} after {gained:?}"), index, bytes);
        }
        ctx.add("objects_read_back", m2.hit_objects.len() as u64);
    });
    ctx.eval(fnv64(bytes), nontrivial);
    if ctx.want_sample() && nontrivial && index % 31 == 9 {
        ctx.sample(J::O(vec![("class".into(), J::s(class)), ("input".into(), J::s(show(bytes, 300)))]));
    }
}

/// D17 classifier on an encoded timing line: inherited line whose time exceeds the parse limit.
fn is_d17_line(line: &str) -> bool {
    let f: Vec<&str> = line.split(',').collect();
    f.len() == 8 && f[6] == "0" && f[0].parse::<f64>().is_ok_and(|t| t.abs() > 2_147_483_647.0)
}

/// D15 classifier on an encoded hit-object line: a slider whose length field exceeds 131072.
fn is_d15_line(line: &str) -> bool {
    let f: Vec<&str> = line.split(',').collect();
    f.len() > 7
        && f[3].parse::<i32>().is_ok_and(|t| t & 2 != 0 && t & 1 == 0)
        && f[7].parse::<f64>().is_ok_and(|l| l > 131_072.0)
}
