//! C01 — decoding and re-encoding are total and memory-safe.
//!
//! Refuting events: a panic/abort/sanitizer report inside `from_bytes::<T>` /
//! `from_str::<T>` / `encode*`; an `Err` from an in-memory buffer; encoder output
//! that is not UTF-8. Aborts and sanitizer reports kill the worker; the driver
//! then reads the in-flight case from the progress file.

use std::time::Instant;

use rosu_map::{
    section::{
        colors::Colors,
        difficulty::Difficulty,
        editor::Editor,
        events::Events,
        general::General,
        hit_objects::{HitObjectKind, HitObjects},
        metadata::Metadata,
        timing_points::TimingPoints,
    },
    Beatmap,
};

use crate::{
    gen::{self, osu, Corpus, Enc, ENCS},
    obs::{recorder::Trace, trlog},
    prop::common::{self, hostile_input, Input, ENCODE_COST_LIMIT},
    util::{fnv64, show, Ctx, Rng, J},
};

pub fn run(ctx: &mut Ctx) {
    // reading megabytes of bundled maps is slow under Miri and that leg does not use them
    let corpus = if ctx.leg == "miri" { Corpus { files: Vec::new() } } else { Corpus::load(&ctx.repo) };
    if corpus.files.is_empty() && ctx.leg != "miri" {
        ctx.inconclusive(format!("no bundled maps found under {}/resources", ctx.repo));
    }
    let tiny = ctx.leg == "miri";
    let max_len = if tiny { 1200 } else { 64 * 1024 };

    if let Some(lit) = ctx.literal.clone() {
        let inp = Input {
            bytes: lit,
            class: "literal",
            enc: "literal",
        };
        one_case(ctx, 9, 0, &inp);
        return;
    }

    // stream 0: random hostile inputs
    let n = ctx.n(160_000, 4_000_000);
    if tiny {
        // Miri leg: inputs are generated natively (emit mode) and only executed under Miri
        let inputs: Vec<Vec<u8>> = match ctx.read_inputs() {
            Some(v) => v,
            None => (0..n).map(|i| small_input(&mut ctx.rng_for(0, i)).bytes).collect(),
        };
        if ctx.emit_inputs(&inputs) {
            return;
        }
        for (i, bytes) in inputs.into_iter().enumerate() {
            let inp = Input { bytes, class: "small-unsafe-biased", enc: "mixed" };
            one_case(ctx, 0, i as u64, &inp);
            if ctx.out_of_time() {
                break;
            }
        }
        return;
    }
    for i in 0..n {
        if ctx.only.is_some_and(|k| k != i) {
            continue;
        }
        let mut r = ctx.rng_for(0, i);
        let inp = hostile_input(&mut r, &corpus, max_len);
        one_case(ctx, 0, i, &inp);
        if ctx.out_of_time() {
            break;
        }
    }
    if ctx.only.is_some() {
        return;
    }

    // stream 1: every prefix of small bundled maps in every encoding
    let small = corpus.small();
    let per_tier = if ctx.quick() { 4 } else { small.len() };
    let mut r = ctx.rng_for(1, 0);
    let mut idx = 0u64;
    let mut picked: Vec<usize> = (0..small.len()).collect();
    for i in (1..picked.len()).rev() {
        let j = r.below(i + 1);
        picked.swap(i, j);
    }
    'outer: for (k, &fi) in picked.iter().take(per_tier).enumerate() {
        // shards split the files
        if (k as u64) % ctx.nshards != ctx.shard {
            continue;
        }
        let (name, bytes) = small[fi];
        let Ok(text) = std::str::from_utf8(bytes) else { continue };
        let text = gen::strip_bom_char(text);
        for enc in ENCS {
            let full = gen::transcode(text, enc);
            let limit = if ctx.quick() { full.len().min(1500) } else { full.len() };
            for cut in 0..=limit {
                let inp = Input {
                    bytes: full[..cut].to_vec(),
                    class: "bundled-prefix",
                    enc: enc.name(),
                };
                one_case(ctx, 1, idx, &inp);
                idx += 1;
                if ctx.out_of_time() {
                    break 'outer;
                }
            }
            ctx.add("prefix_files_x_encodings", 1);
        }
        ctx.seen("prefix_files", name.clone());
    }
}

/// Small inputs for the Miri leg, biased towards the paths with `unsafe`:
/// slider path strings (point_split re-borrow), custom sample banks
/// (`new_unchecked`), invalid UTF-8 and UTF-16.
fn small_input(r: &mut Rng) -> Input {
    let cfg = osu::Cfg {
        hostile: [0u8, 1, 2][r.below(3)],
        chrono: r.chance(1, 2),
        max_objects: 3,
        max_tp: 3,
        all_keys: false,
        near_object_points: r.chance(1, 2),
        ..osu::Cfg::default()
    };
    let mut g = osu::gen_map(r, &cfg);
    // make sure there is a slider and an odd custom bank
    let x = r.range(0, 400);
    g.lines.push(osu::GLine {
        sec: 7,
        kind: osu::Kind::Record,
        text: format!(
            "{x},100,{},2,{},{},{},{},1|2,0:0|{}:{},{}:1:{}:50:",
            r.range(0, 5000),
            r.below(16),
            osu::path_string(r, x, 100, cfg.hostile, 4),
            1 + r.below(2),
            20 + r.below(200),
            r.below(4),
            r.below(4),
            r.below(4),
            [0i64, 1, 2, 5, -3][r.below(5)]
        ),
    });
    let text = g.text();
    let mut bytes = text.clone().into_bytes();
    let mut enc = "utf8";
    match r.below(5) {
        0 => {
            for _ in 0..1 + r.below(3) {
                let i = r.below(bytes.len());
                bytes[i] = [0x80u8, 0xBF, 0xC3, 0xE2, 0xF0, 0xFF][r.below(6)];
            }
            // also at the very end: truncated multi-byte tail
            if r.chance(1, 2) {
                bytes.extend_from_slice(&[b'\n', b'a', 0xE4, 0xB8]);
            }
            enc = "invalid-utf8";
        }
        1 => {
            bytes = gen::transcode(&text, Enc::Utf16Le);
            enc = "utf16le-bom";
            if r.chance(1, 3) {
                bytes.pop();
            }
        }
        2 => {
            bytes = gen::transcode(&text, Enc::Utf16Be);
            enc = "utf16be-bom";
            if r.chance(1, 3) {
                bytes.pop();
            }
        }
        _ => {}
    }
    if bytes.len() > 1200 {
        bytes.truncate(1200);
    }
    Input {
        bytes,
        class: "small-unsafe-biased",
        enc,
    }
}

macro_rules! dec {
    ($ctx:expr, $index:expr, $bytes:expr, $t:ty, $name:literal) => {
        match rosu_map::from_bytes::<$t>($bytes) {
            Ok(v) => {
                $ctx.count("decodes_ok");
                Some(v)
            }
            Err(e) => {
                $ctx.violation(
                    "err_from_memory",
                    format!("from_bytes::<{}> returned Err({e:?}) for an in-memory buffer", $name),
                    $index,
                    $bytes,
                );
                None
            }
        }
    };
}

fn one_case(ctx: &mut Ctx, stream: u64, index: u64, inp: &Input) {
    let bytes = &inp.bytes;
    ctx.progress(stream, index, bytes);
    ctx.count(&format!("class_{}", inp.class));
    ctx.count(&format!("enc_{}", inp.enc));
    let t0 = Instant::now();
    let light = ctx.leg == "miri";
    let mut nontrivial = false;
    let tag = stream << 56 | index;
    ctx.case(tag, bytes, |ctx| {
        // the Miri leg keeps harness-side work minimal: the full decoder reaches the code of all
        // section parsers; the other eight types are added on every 4th case only
        let all = !light || index % 4 == 0;
        if all {
            let trace = dec!(ctx, tag, bytes, Trace, "Recorder");
            nontrivial = trace.as_ref().is_some_and(|t| !t.calls.is_empty());
        } else {
            nontrivial = true;
        }
        let map = dec!(ctx, tag, bytes, Beatmap, "Beatmap");
        if all {
            let _ = dec!(ctx, tag, bytes, HitObjects, "HitObjects");
            let _ = dec!(ctx, tag, bytes, TimingPoints, "TimingPoints");
            let _ = dec!(ctx, tag, bytes, General, "General");
            let _ = dec!(ctx, tag, bytes, Editor, "Editor");
            let _ = dec!(ctx, tag, bytes, Metadata, "Metadata");
            let _ = dec!(ctx, tag, bytes, Difficulty, "Difficulty");
            let _ = dec!(ctx, tag, bytes, Events, "Events");
            let _ = dec!(ctx, tag, bytes, Colors, "Colors");
        }
        if let (true, Ok(s)) = (all, std::str::from_utf8(bytes)) {
            match rosu_map::from_str::<Beatmap>(s) {
                Ok(_) => ctx.count("from_str_ok"),
                Err(e) => ctx.violation("err_from_memory", format!("from_str::<Beatmap> returned Err({e:?})"), tag, bytes),
            }
        }
        let events = trlog::take();
        ctx.add("tracing_events_formatted", events.len() as u64);

        let Some(mut map) = map else { return };
        ctx.count(&format!("mode_{}", common::mode_name(map.mode)));
        for h in &map.hit_objects {
            ctx.count(match h.kind {
                HitObjectKind::Circle(_) => "objects_circle",
                HitObjectKind::Slider(_) => "objects_slider",
                HitObjectKind::Spinner(_) => "objects_spinner",
                HitObjectKind::Hold(_) => "objects_hold",
            });
        }
        if common::encode_cost(&mut map) > ENCODE_COST_LIMIT {
            ctx.count("skipped_resource_bound");
            return;
        }
        // first generation encoding
        let mut out = Vec::new();
        match map.encode(&mut out) {
            Ok(()) => ctx.count("encodes_ok"),
            Err(e) => {
                ctx.violation("encode_err_in_memory", format!("encode(&mut Vec) returned Err({e:?})"), tag, bytes);
                return;
            }
        }
        if std::str::from_utf8(&out).is_err() {
            ctx.violation("encode_not_utf8", "encoder output is not valid UTF-8".into(), tag, bytes);
        }
        if light {
            return;
        }
        match map.encode_to_string() {
            Ok(s) => {
                if s.as_bytes() != out.as_slice() {
                    ctx.violation("encode_unstable", "encode_to_string differs from encode(&mut Vec) on the same map".into(), tag, bytes);
                }
            }
            Err(e) => ctx.violation("encode_err_in_memory", format!("encode_to_string returned Err({e:?})"), tag, bytes),
        }
        // second generation
        if let Some(mut m2) = dec!(ctx, tag, &out, Beatmap, "Beatmap(second generation)") {
            let _ = trlog::take();
            if common::encode_cost(&mut m2) <= ENCODE_COST_LIMIT {
                match m2.encode_to_string() {
                    Ok(_) => ctx.count("second_generation_encodes_ok"),
                    Err(e) => ctx.violation("encode_err_in_memory", format!("second generation encode returned Err({e:?})"), tag, bytes),
                }
            }
        }
    });
    let ms = t0.elapsed().as_secs_f64() * 1000.0;
    ctx.maxf("max_case_ms", ms);
    if ms > 2000.0 {
        ctx.count("cases_over_2s");
        ctx.seen("slow_cases", format!("stream {stream} index {index} len {} ms {ms:.0}", bytes.len()));
    }
    ctx.eval(fnv64(bytes), nontrivial);
    if ctx.want_sample() && nontrivial && index % 7 == 3 {
        ctx.sample(J::O(vec![
            ("class".into(), J::s(inp.class)),
            ("encoding".into(), J::s(inp.enc)),
            ("len".into(), J::U(bytes.len() as u64)),
            ("input".into(), J::s(show(bytes, 300))),
        ]));
    }
}
