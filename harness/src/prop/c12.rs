//! C12 — timing-point lines resolve by the legacy precedence rules.
//!
//! Refuting events: a line sequence whose decoded control points differ from the
//! legacy pending-group model; a list that is not strictly increasing in time; a
//! value outside its clamp; a NaN beat length accepted on a timing-change line.

use rosu_map::section::timing_points::TimingPoints;

use crate::{
    gen::osu,
    model::timing,
    util::{fnv64, Ctx, J},
};

fn alphabet() -> Vec<String> {
    let times = ["0", "0.00000000000000001", "10", "10.0", "20", "-5", "-0"];
    let bls = ["500", "-50", "0", "-0.00001", "1000000000", "NaN", "-200", "5", "-1000000"];
    let tails = [
        ",4,1,0,100,1,0",
        ",4,2,0,50,0,1",
        ",3,1,1,100,1,8",
        ",4,1,0,100,0,0",
        "",
        ",4,9,0,150,0,9",
        ",0,3,2,100,1,1",
        ",4,2",
        ",4,0,0,-5,0,8",
    ];
    let mut alpha = Vec::new();
    for t in times {
        for b in bls {
            for tl in tails {
                alpha.push(format!("{t},{b}{tl}"));
            }
        }
    }
    alpha
}

pub fn run(ctx: &mut Ctx) {
    if let Some(lit) = ctx.literal.clone() {
        let text = String::from_utf8_lossy(&lit).into_owned();
        let lines: Vec<&str> = text.lines().collect();
        for mode in 0..4 {
            check(ctx, 0, &lines, mode, 0, None);
        }
        return;
    }
    // ---- stream 1: exhaustive over a sub-alphabet
    let full = alphabet();
    // a spread sub-alphabet (every 13th of 567 lines, 13 is coprime to 7*9*9) plus hand-picked same-time rivals
    let mut sub: Vec<&str> = full.iter().step_by(11).map(String::as_str).collect();
    for extra in ["10,500,4,1,0,100,1,0", "10,-50,4,2,0,50,0,1", "10,250,3,1,1,100,1,8", "10,-200,4,1,0,100,0,0", "-0,500", "0,-50,4,1,0,100,0,1"] {
        if !sub.contains(&extra) {
            sub.push(extra);
        }
    }
    let n = sub.len() as u64;
    let max_len: u32 = if ctx.quick() { 3 } else { 4 };
    let mut idx = 0u64;
    let mut complete = true;
    'outer: for len in 1..=max_len {
        let total = n.pow(len);
        for code in 0..total {
            idx += 1;
            if idx % ctx.nshards != ctx.shard {
                continue;
            }
            let mut c = code;
            let mut ls = Vec::with_capacity(len as usize);
            for _ in 0..len {
                ls.push(sub[(c % n) as usize]);
                c /= n;
            }
            for mode in 0..4u8 {
                check(ctx, 1 << 56 | idx, &ls, mode, 0, None);
            }
            if idx % 8192 < ctx.nshards && ctx.out_of_time() {
                complete = false;
                break 'outer;
            }
        }
    }
    ctx.report.exhaustive = Some(complete);
    ctx.note(format!(
        "exhaustive part: all sequences of length <= {max_len} over {} lines (a spread sub-alphabet of 7 times x 9 beat lengths x 9 field tails) x 4 modes",
        sub.len()
    ));

    // ---- stream 0: long random sequences (real-valued times, omitted trailing fields, hostile tokens)
    let m = ctx.n(60_000, 1_500_000);
    for i in 0..m {
        if ctx.only.is_some_and(|k| k != i) {
            continue;
        }
        let mut r = ctx.rng_for(0, i);
        let cfg = osu::Cfg {
            hostile: [0u8, 1, 1, 2][r.below(4)],
            int_times: r.chance(1, 2),
            ..osu::Cfg::default()
        };
        let len = 5 + r.below(56);
        let mut t = r.range(-500, 500) as f64;
        let mut ls: Vec<String> = Vec::new();
        for _ in 0..len {
            // a mix of full-alphabet lines (lots of equal times) and generated ones
            if r.chance(1, 3) {
                ls.push(r.pick(&full).clone());
            } else {
                ls.push(osu::timing_line(&mut r, &cfg, t, false));
                match r.below(5) {
                    0 => {}
                    1 => t -= r.range(0, 3000) as f64,
                    _ => t += r.range(0, 3000) as f64 + if cfg.int_times { 0.0 } else { [0.0, 0.5, 0.25, 1e-17][r.below(4)] },
                }
            }
        }
        let refs: Vec<&str> = ls.iter().map(String::as_str).collect();
        let mode = r.below(4) as u8;
        let general = if r.chance(1, 3) { Some((r.below(4) as u8, [100, 60, 0, 150, -5][r.below(5)])) } else { None };
        check(ctx, i, &refs, mode, 1, general);
        if ctx.out_of_time() {
            break;
        }
    }
}

fn check(ctx: &mut Ctx, index: u64, lines: &[&str], mode: u8, stream: u8, general: Option<(u8, i32)>) {
    let mut txt = format!("osu file format v14\n[General]\nMode: {mode}\n");
    let (dbank, dvol) = general.unwrap_or((0, 100));
    if general.is_some() {
        txt.push_str(&format!("SampleSet: {}\nSampleVolume: {dvol}\n", ["None", "Normal", "Soft", "Drum"][dbank as usize]));
    }
    txt.push_str("[TimingPoints]\n");
    for l in lines {
        txt.push_str(l);
        txt.push('\n');
    }
    let bytes = txt.as_bytes();
    let mut nontrivial = false;
    ctx.case(index, bytes, |ctx| {
        // only lines that the framing rules dispatch reach the model (blank / comment-only lines are skipped)
        let dispatched: Vec<&str> = lines.iter().map(|l| l.trim_end()).filter(|l| !l.is_empty() && !l.trim_start().starts_with("//") && crate::obs::recorder::header_of(l).is_none()).collect();
        let (exp, accepted) = timing::model(&dispatched, mode, dbank, dvol);
        let n_acc = accepted.iter().filter(|a| **a).count();
        ctx.add("lines_accepted", n_acc as u64);
        ctx.add("lines_rejected", (accepted.len() - n_acc) as u64);
        nontrivial = n_acc > 0;
        let Ok(r) = rosu_map::from_str::<TimingPoints>(&txt) else {
            ctx.violation("err_from_memory", "decode failed".into(), index, bytes);
            return;
        };
        ctx.count(if stream == 0 { "exhaustive_cases" } else { "random_cases" });
        if let Err(why) = timing::invariants(&r.control_points, mode) {
            ctx.violation("structural_invariant", why, index, bytes);
            return;
        }
        let got = timing::project(&r.control_points);
        ctx.add("points_compared", (got.t.len() + got.d.len() + got.e.len() + got.s.len()) as u64);
        if got.d.iter().any(|d| !d.ticks) {
            ctx.count("cases_with_nan_inherited_line");
        }
        if !timing::same(&exp, &got) {
            ctx.violation(
                "legacy_model_mismatch",
                format!("mode {mode}: decoded control points differ from the legacy model\n real:  {got:?}\n model: {exp:?}"),
                index,
                bytes,
            );
        }
    });
    ctx.eval(fnv64(bytes), nontrivial);
    if ctx.want_sample() && nontrivial && index % 47 == 5 {
        ctx.sample(J::O(vec![("mode".into(), J::U(u64::from(mode))), ("lines".into(), J::A(lines.iter().take(12).map(|l| J::s(*l)).collect()))]));
    }
}
