//! C18 — curve computation is pure: buffers, caches and API choice do not matter.
//!
//! Refuting events: a history over one shared `CurveBuffers` after which some API
//! returns a curve whose `path()` / `lengths()` differ bitwise from `Curve::new` with
//! fresh buffers for the same (mode, points, length); a `SliderPath` accessor
//! mutation after which `curve()` still shows the old curve.

use rosu_map::section::{
    general::GameMode,
    hit_objects::{BorrowedCurve, Curve, CurveBuffers, PathControlPoint, PathType, SliderPath},
};

use crate::{
    gen::paths::{self, cp, MODES},
    util::{mix64, Ctx, Rng, J},
};

fn pool() -> Vec<Vec<PathControlPoint>> {
    let b = Some(PathType::BEZIER);
    let l = Some(PathType::LINEAR);
    let p = Some(PathType::PERFECT_CURVE);
    let c = Some(PathType::CATMULL);
    vec![
        vec![],
        vec![cp(0.0, 0.0, b)],
        vec![cp(0.0, 0.0, l), cp(10.0, 0.0, None)],
        vec![cp(0.0, 0.0, b), cp(50.0, 80.0, None), cp(120.0, -30.0, None), cp(200.0, 40.0, None), cp(260.0, 0.0, None), cp(300.0, 90.0, None), cp(20.0, 200.0, None)],
        vec![cp(0.0, 0.0, b), cp(30.0, 40.0, None), cp(60.0, 0.0, None)],
        vec![cp(0.0, 0.0, p), cp(40.0, 40.0, None), cp(80.0, 0.0, None)],
        vec![cp(0.0, 0.0, c), cp(40.0, 10.0, None), cp(80.0, -50.0, None), cp(150.0, 20.0, None)],
        vec![cp(0.0, 0.0, l), cp(40.0, 0.0, None), cp(40.0, 0.0, b), cp(60.0, 60.0, None), cp(100.0, 0.0, p), cp(140.0, 40.0, None), cp(180.0, 0.0, None)],
        vec![cp(0.0, 0.0, c), cp(0.0, 0.0, None), cp(30.0, 0.0, None)],
        vec![cp(0.0, 0.0, p), cp(10.0, 10.0, None), cp(20.0, 20.0, None)],
        vec![cp(0.0, 0.0, None), cp(5.0, 5.0, None)],
        vec![cp(0.0, 0.0, l), cp(7.0, 0.0, None), cp(7.0, 0.0, None)],
        // a Bezier with more control points than one Catmull span yields path points (scratch buffers of
        // different sizes must not be assumed equal)
        (0..130).map(|i| cp(i as f32 * 3.0, ((i * 37) % 50) as f32, if i == 0 { b } else { None })).collect(),
    ]
}

const LENGTHS: [Option<f64>; 7] = [None, Some(1.0), Some(55.5), Some(4000.0), Some(0.0), Some(-3.0), Some(1e-17)];

#[derive(Clone, Copy, Debug)]
enum Op {
    /// Curve::new(pool[i], LENGTHS[l]) with the shared buffers
    Owned(usize, usize),
    /// BorrowedCurve::new with the shared buffers
    Borrowed(usize, usize),
    /// SliderPath::curve() / curve_with_bufs(shared) on the path under test
    PathCurve(bool),
    /// SliderPath::borrowed_curve(shared)
    PathBorrowed,
    /// replace the control points through control_points_mut()
    SetPoints(usize),
    /// replace the expected distance through expected_dist_mut()
    SetLength(usize),
    ClearCache,
    /// replace the path under test by a copy of another path: `clone_from` of an uncached / a cached source
    /// (`bool`), or assignment of `clone()`
    CopyFrom(usize, bool, bool),
}

struct World {
    bufs: CurveBuffers,
    mode: GameMode,
    path: SliderPath,
    /// what the path under test is supposed to hold
    points: Vec<PathControlPoint>,
    length: Option<f64>,
    pool: Vec<Vec<PathControlPoint>>,
}

fn fresh(mode: GameMode, pts: &[PathControlPoint], l: Option<f64>) -> Curve {
    Curve::new(mode, pts, l, &mut CurveBuffers::default())
}

fn same(a_path: &[rosu_map::util::Pos], a_len: &[f64], b: &Curve) -> bool {
    a_path.len() == b.path().len()
        && a_len.len() == b.lengths().len()
        && a_path.iter().zip(b.path()).all(|(x, y)| x.x.to_bits() == y.x.to_bits() && x.y.to_bits() == y.y.to_bits())
        && a_len.iter().zip(b.lengths()).all(|(x, y)| x.to_bits() == y.to_bits())
}

impl World {
    fn new(mode: GameMode, pool: Vec<Vec<PathControlPoint>>) -> Self {
        let points = pool[2].clone();
        Self { bufs: CurveBuffers::default(), mode, path: SliderPath::new(mode, points.clone(), None), points, length: None, pool }
    }

    fn step(&mut self, op: Op) -> Result<(), String> {
        match op {
            Op::Owned(i, l) => {
                let c = Curve::new(self.mode, &self.pool[i], LENGTHS[l], &mut self.bufs);
                let f = fresh(self.mode, &self.pool[i], LENGTHS[l]);
                if !same(c.path(), c.lengths(), &f) {
                    return Err(format!("Curve::new with reused buffers differs from fresh buffers for pool[{i}] L={:?}: {} vs {} path points, dist {:?} vs {:?}", LENGTHS[l], c.path().len(), f.path().len(), c.dist(), f.dist()));
                }
            }
            Op::Borrowed(i, l) => {
                let f = fresh(self.mode, &self.pool[i], LENGTHS[l]);
                let c = BorrowedCurve::new(self.mode, &self.pool[i], LENGTHS[l], &mut self.bufs);
                if !same(c.path(), c.lengths(), &f) {
                    return Err(format!("BorrowedCurve::new with reused buffers differs from fresh buffers for pool[{i}] L={:?}: {} vs {} path points, dist {:?} vs {:?}", LENGTHS[l], c.path().len(), f.path().len(), c.dist(), f.dist()));
                }
                if !same(c.to_owned_curve().path(), c.to_owned_curve().lengths(), &f) {
                    return Err("to_owned_curve differs from the borrowed view".into());
                }
            }
            Op::PathCurve(with_bufs) => {
                let f = fresh(self.mode, &self.points, self.length);
                let c = if with_bufs { self.path.curve_with_bufs(&mut self.bufs) } else { self.path.curve() };
                if !same(c.path(), c.lengths(), &f) {
                    return Err(format!("SliderPath::curve{} differs from a fresh computation of its current control points / length ({} vs {} path points, dist {:?} vs {:?})", if with_bufs { "_with_bufs" } else { "" }, c.path().len(), f.path().len(), c.dist(), f.dist()));
                }
            }
            Op::PathBorrowed => {
                let f = fresh(self.mode, &self.points, self.length);
                let c = self.path.borrowed_curve(&mut self.bufs);
                if !same(c.path(), c.lengths(), &f) {
                    return Err(format!("SliderPath::borrowed_curve differs from a fresh computation ({} vs {} path points, dist {:?} vs {:?})", c.path().len(), f.path().len(), c.dist(), f.dist()));
                }
            }
            Op::SetPoints(i) => {
                self.points = self.pool[i].clone();
                *self.path.control_points_mut() = self.points.clone();
            }
            Op::SetLength(l) => {
                self.length = LENGTHS[l];
                *self.path.expected_dist_mut() = self.length;
            }
            Op::ClearCache => self.path.clear_curve(),
            Op::CopyFrom(i, cached, via_clone_from) => {
                let l = LENGTHS[(i + 2) % 7];
                let mut src = SliderPath::new(self.mode, self.pool[i].clone(), l);
                if cached {
                    let _ = src.curve().dist();
                }
                if via_clone_from {
                    self.path.clone_from(&src);
                } else {
                    self.path = src.clone();
                }
                self.points = self.pool[i].clone();
                self.length = l;
            }
        }
        if self.path.control_points() != self.points.as_slice() || self.path.expected_dist().map(f64::to_bits) != self.length.map(f64::to_bits) {
            return Err("accessors do not show the values that were set".into());
        }
        Ok(())
    }
}

fn all_ops(npool: usize) -> Vec<Op> {
    let mut v = Vec::new();
    for i in 0..npool {
        v.push(Op::Owned(i, i % 7));
        v.push(Op::Borrowed(i, (i + 1) % 7));
        v.push(Op::SetPoints(i));
    }
    for l in 0..7 {
        v.push(Op::SetLength(l));
    }
    v.extend_from_slice(&[Op::PathCurve(false), Op::PathCurve(true), Op::PathBorrowed, Op::ClearCache]);
    v.extend_from_slice(&[Op::CopyFrom(1 % npool, false, true), Op::CopyFrom(2 % npool, true, true), Op::CopyFrom(3 % npool, false, false)]);
    v
}

fn run_history(ctx: &mut Ctx, index: u64, mode: GameMode, pool: &[Vec<PathControlPoint>], h: &[Op]) {
    let w = format!("{mode:?} {h:?}");
    ctx.case(index, w.as_bytes(), |ctx| {
        let mut world = World::new(mode, pool.to_vec());
        for (k, op) in h.iter().enumerate() {
            ctx.count("operations");
            if let Err(why) = world.step(*op) {
                ctx.violation("impure", format!("step {} ({op:?}) of {h:?}: {why}", k + 1), index, w.as_bytes());
                return;
            }
        }
    });
    let mut d = mix64(mode as u64);
    for op in h {
        d = mix64(d ^ fnv(&format!("{op:?}")));
    }
    ctx.eval(d, h.len() >= 2);
    if ctx.want_sample() && h.len() >= 3 && index % 83 == 37 {
        ctx.sample(J::O(vec![("history".into(), J::s(w))]));
    }
}

fn fnv(s: &str) -> u64 {
    crate::util::fnv64(s.as_bytes())
}

pub fn run(ctx: &mut Ctx) {
    let pool = pool();
    let ops = all_ops(pool.len());
    let small = ctx.leg == "miri";
    if !small {
        // exhaustive short histories
        let n = ops.len() as u64;
        let max_len: u32 = if ctx.quick() { 3 } else { 4 };
        let mut idx = 0u64;
        let mut complete = true;
        'outer: for len in 1..=max_len {
            let total = n.pow(len);
            let mut code = ctx.shard;
            while code < total {
                idx += 1;
                let mut c = code;
                let h: Vec<Op> = (0..len).map(|_| { let o = ops[(c % n) as usize]; c /= n; o }).collect();
                let mode = MODES[(code % 4) as usize];
                run_history(ctx, u64::from(len) << 48 | code, mode, &pool, &h);
                code += ctx.nshards;
                if idx % 4096 == 0 && ctx.out_of_time() {
                    complete = false;
                    break 'outer;
                }
            }
        }
        ctx.report.exhaustive = Some(complete);
        ctx.note(format!("exhaustive part: all histories of length <= {max_len} over {} operations on a pool of {} control-point lists (empty, single point, each type, multi-segment, long-then-short Bezier, a 130-point Bezier) and 7 lengths (none, three positive, zero, negative, below epsilon)", ops.len(), pool.len()));
    }
    // random long histories, with random extra pool entries
    let m = ctx.n(10_000, 1_000_000);
    for i in 0..m {
        let mut r = ctx.rng_for(0, i);
        let mut p2 = pool.clone();
        for _ in 0..3 {
            p2.push(paths::random_points(&mut r));
        }
        let len = if small { 6 } else { 5 + r.below(46) };
        let h: Vec<Op> = (0..len).map(|_| random_op(&mut r, p2.len())).collect();
        run_history(ctx, 1 << 60 | i, MODES[r.below(4)], &p2, &h);
        if ctx.out_of_time() {
            break;
        }
    }
}

fn random_op(r: &mut Rng, npool: usize) -> Op {
    match r.below(10) {
        0 | 1 => Op::Owned(r.below(npool), r.below(7)),
        2 | 3 => Op::Borrowed(r.below(npool), r.below(7)),
        4 => Op::PathCurve(r.chance(1, 2)),
        5 => Op::PathBorrowed,
        6 | 7 => Op::SetPoints(r.below(npool)),
        8 => Op::SetLength(r.below(7)),
        _ => Op::ClearCache,
    }
}
