//! C05 — file framing: which lines reach which section parser.
//!
//! Refuting events: the Recorder trace of the real decode driver differs from the
//! reference framing model; the decoded Beatmap differs from the one obtained by
//! feeding the model's trace to the public section parsers; inserting blank /
//! whitespace-only lines anywhere, or comment lines after the first non-blank line,
//! changes the Beatmap; CRLF vs LF changes it.

use rosu_map::Beatmap;

use crate::{
    gen::{self, Enc, ENCS},
    model::framing,
    obs::{cmp, recorder::Trace},
    prop::common::beatmap_from_trace,
    util::{fnv64, show, Ctx, Rng, J},
};

pub const ALPHABET: &[&str] = &[
    "",
    "  ",
    "\t",
    "// c",
    "  // c",
    "osu file format v9",
    "osu file format v9 // x",
    " osu file format v9",
    "osu file format vx",
    "osu file format v",
    "osu file format v-3",
    "osu file format v2147483648",
    "osu file format v-2147483648",
    "osu file format v-2147483647",
    "osu file format v 7 ",
    "osu file format v14 v9",
    "osu file format vv6",
    "[General]",
    "[Editor]",
    "[Metadata]",
    "[Difficulty]",
    "[Events]",
    "[TimingPoints]",
    "[Colours]",
    "[HitObjects]",
    "[Variables]",
    "[CatchTheBeat]",
    "[Mania]",
    "[Foo]",
    " [General]",
    "[General] ",
    "[General]x",
    "[general]",
    "[]",
    "[Difficulty] // c",
    "[Metadata]//x",
    "[[Metadata]]",
    "[Events]]",
    "[[General]",
    "Mode: 1",
    "Mode: x",
    "Title: a // b",
    "BeatmapID: x",
    "ApproachRate: 9",
    "Bookmarks: 1,2",
    "0,0,\"bg.png\"",
    "2,x,y",
    "0,500,4,1,0,100,1,0",
    "Combo1: 1,2,3",
    "Combo1: 1,2",
    "0,0,0,1,0",
    "garbage",
    "[HitObjects]\r",
    "\u{3000}",
    "a\u{0085}",
    " Mode: 2",
    "_x: 1,2,3",
    "Title: caf\u{e000}",
    "// cr\u{e000}\u{e000}",
    "Creator:\u{040a}",
    "Source: \u{0a05}x\u{4e0a}",
    // code units whose bytes form 00 0A / 0A 00 across a unit boundary (big- / little-endian false line feeds)
    "Tags: \u{4e00}\u{0a81}\u{4e00} \u{3000}\u{0a0a}\u{3000}",
];

/// U+E000 in an alphabet entry stands for one invalid UTF-8 byte (0xE9) in the UTF-8 form of the file
fn to_utf8_bytes(text: &str) -> Vec<u8> {
    let mut out = Vec::with_capacity(text.len());
    let mut buf = [0u8; 4];
    for c in text.chars() {
        if c == '\u{e000}' {
            out.push(0xE9);
        } else {
            out.extend_from_slice(c.encode_utf8(&mut buf).as_bytes());
        }
    }
    out
}

fn build(seq: &[usize], eol: &str, final_eol: bool) -> String {
    let mut s = String::new();
    for (k, &i) in seq.iter().enumerate() {
        s.push_str(ALPHABET[i]);
        if k + 1 < seq.len() || final_eol {
            s.push_str(eol);
        }
    }
    s
}

/// The public header recogniser on its own: exactly `[Name]` for the eleven known names.
fn header_recogniser(ctx: &mut Ctx) {
    use rosu_map::section::Section;
    let known = |s: Section| -> u8 {
        match s {
            Section::General => 0,
            Section::Editor => 1,
            Section::Metadata => 2,
            Section::Difficulty => 3,
            Section::Events => 4,
            Section::TimingPoints => 5,
            Section::Colors => 6,
            Section::HitObjects => 7,
            Section::Variables => 8,
            Section::CatchTheBeat => 9,
            Section::Mania => 10,
        }
    };
    let mut lines: Vec<String> = ALPHABET.iter().map(|l| l.trim_end().to_string()).collect();
    for n in crate::obs::recorder::SECTION_NAMES {
        for (pre, post) in [("[", "]"), ("[[", "]]"), ("[", "]]"), ("[[", "]"), ("", "]"), ("[", ""), ("[ ", "]"), ("[", " ]"), ("(", ")"), ("[", "]\u{3000}")] {
            lines.push(format!("{pre}{n}{post}"));
            lines.push(format!("{pre}{}{post}", n.to_lowercase()));
        }
    }
    for (k, l) in lines.iter().enumerate() {
        let exp = crate::obs::recorder::header_of(l);
        let got = Section::try_from_line(l).map(known);
        ctx.count("header_recogniser_lines");
        if got != exp {
            ctx.violation("header_recognition", format!("Section::try_from_line({l:?}) = {got:?}, the format says {exp:?}"), 7 << 56 | k as u64, l.as_bytes());
        }
    }
}

pub fn run(ctx: &mut Ctx) {
    if let Some(lit) = ctx.literal.clone() {
        check_bytes(ctx, 0, &lit, "literal");
        return;
    }
    if ctx.shard == 0 {
        header_recogniser(ctx);
    }
    let n = ALPHABET.len() as u64;
    let max_len: u32 = if ctx.quick() { 3 } else { 4 };
    // stream 0: exhaustive enumeration of all sequences up to max_len
    let mut offsets = vec![0u64];
    for l in 0..=max_len {
        offsets.push(offsets[l as usize] + n.pow(l));
    }
    let total = *offsets.last().unwrap();
    let mut complete = true;
    let mut seq = Vec::new();
    let mut idx = ctx.shard;
    while idx < total {
        if ctx.only.is_none() || ctx.only == Some(idx) {
            let len = (0..=max_len).find(|l| idx < offsets[*l as usize + 1]).unwrap();
            let mut code = idx - offsets[len as usize];
            seq.clear();
            for _ in 0..len {
                seq.push((code % n) as usize);
                code /= n;
            }
            // UTF-8 in all four line-ending variants for short sequences, LF+final newline for the longest
            let variants: &[(&str, bool)] = if len < max_len || ctx.quick() {
                &[("\n", true), ("\n", false), ("\r\n", true), ("\r\n", false)]
            } else {
                &[("\n", true), ("\r\n", false)]
            };
            for (eol, fin) in variants {
                let text = build(&seq, eol, *fin);
                check_bytes(ctx, idx, &to_utf8_bytes(&text), "enumerated-utf8");
            }
            // other encodings: a 1/16 sample of the enumeration
            if idx % 16 == 5 {
                // with and without a final line feed, alternating
                let text = build(&seq, "\n", idx % 32 == 5);
                for enc in [Enc::Utf8Bom, Enc::Utf16Le, Enc::Utf16Be] {
                    let bytes = gen::transcode(&text, enc);
                    check_bytes(ctx, idx, &bytes, "enumerated-transcoded");
                }
            }
            // metamorphic: filler insertion and CRLF on a 1/8 sample
            if idx % 8 == 3 && len > 0 {
                let mut r = ctx.rng_for(7, idx);
                metamorphic(ctx, idx, &seq, &mut r);
            }
        }
        idx += ctx.nshards;
        if idx % 4096 < ctx.nshards && ctx.out_of_time() {
            complete = false;
            break;
        }
    }
    ctx.report.exhaustive = Some(complete && ctx.only.is_none());
    ctx.add("enumerated_sequences", if complete { (total - ctx.shard + ctx.nshards - 1) / ctx.nshards } else { 0 });
    ctx.note(format!(
        "exhaustive part: all sequences of length <= {max_len} over an alphabet of {} line kinds ({} sequences in total over all shards)",
        ALPHABET.len(),
        total
    ));
    if ctx.only.is_some() {
        return;
    }

    // stream 1: random longer sequences in every encoding
    let m = ctx.n(60_000, 1_500_000);
    for i in 0..m {
        let mut r = ctx.rng_for(1, i);
        let len = 5 + r.below(36);
        let seq: Vec<usize> = (0..len).map(|_| r.below(ALPHABET.len())).collect();
        let eol = if r.chance(1, 3) { "\r\n" } else { "\n" };
        let text = build(&seq, eol, r.chance(3, 4));
        let enc = ENCS[r.below(4)];
        let bytes = if enc == Enc::Utf8 { to_utf8_bytes(&text) } else { gen::transcode(&text, enc) };
        check_bytes(ctx, 1 << 56 | i, &bytes, "random-long");
        if i % 4 == 0 {
            metamorphic(ctx, 1 << 56 | i, &seq, &mut r);
        }
        if ctx.out_of_time() {
            break;
        }
    }
}

fn decode_pair(ctx: &mut Ctx, index: u64, bytes: &[u8]) -> Option<(Trace, Beatmap)> {
    let t = match rosu_map::from_bytes::<Trace>(bytes) {
        Ok(t) => t,
        Err(e) => {
            ctx.violation("err_from_memory", format!("Recorder decode returned Err({e:?})"), index, bytes);
            return None;
        }
    };
    let m = match rosu_map::from_bytes::<Beatmap>(bytes) {
        Ok(m) => m,
        Err(e) => {
            ctx.violation("err_from_memory", format!("Beatmap decode returned Err({e:?})"), index, bytes);
            return None;
        }
    };
    Some((t, m))
}

fn check_bytes(ctx: &mut Ctx, index: u64, bytes: &[u8], class: &str) {
    ctx.count(&format!("class_{class}"));
    let mut nontrivial = false;
    ctx.case(index, bytes, |ctx| {
        let Some((got, map)) = decode_pair(ctx, index, bytes) else { return };
        let exp = framing::model(bytes);
        nontrivial = !exp.calls.is_empty();
        ctx.add("dispatched_lines", exp.calls.len() as u64);
        for (sec, _) in &exp.calls {
            ctx.count(&format!("dispatch_to_section_{sec}"));
        }
        if exp.version != framing::LATEST {
            ctx.count("explicit_version_seen");
        }
        if got != exp {
            ctx.violation(
                "trace_mismatch",
                format!("line dispatch differs from the framing model\n real:  {}\n model: {}", got.render(), exp.render()),
                index,
                bytes,
            );
            return;
        }
        // the framing is that of the byte content, however the reader hands the bytes out: a sample of the
        // cases is also decoded through readers whose first chunk is shorter than a BOM
        if index % 4 == 0 && !bytes.is_empty() {
            use rosu_map::DecodeBeatmap;
            for sizes in [vec![1usize, usize::MAX], vec![2, usize::MAX], vec![1, 1, usize::MAX], vec![3, 1]] {
                ctx.count("chunked_deliveries_checked");
                match Trace::decode(crate::obs::io::ChunkReader::new(bytes, sizes.clone(), Vec::new())) {
                    Ok(t) if t == exp => {}
                    Ok(t) => {
                        ctx.violation(
                            "trace_mismatch",
                            format!("line dispatch through a reader with chunk sizes {sizes:?} differs from the framing model\n real:  {}\n model: {}", t.render(), exp.render()),
                            index,
                            bytes,
                        );
                        return;
                    }
                    Err(e) => {
                        ctx.violation("err_from_memory", format!("decode through a chunked in-memory reader failed: {e:?}"), index, bytes);
                        return;
                    }
                }
            }
        }
        let reference = beatmap_from_trace(&exp);
        if cmp::full(&reference) != cmp::full(&map) {
            ctx.violation(
                "value_mismatch",
                "Beatmap differs from the reference driver feeding the model trace to the public section parsers".into(),
                index,
                bytes,
            );
        }
    });
    ctx.eval(fnv64(bytes), nontrivial);
    if ctx.want_sample() && nontrivial && index % 13 == 1 {
        ctx.sample(J::O(vec![
            ("class".into(), J::s(class)),
            ("input".into(), J::s(show(bytes, 240))),
            ("trace".into(), J::s(framing::model(bytes).render())),
        ]));
    }
}

/// Filler insertion and line-ending invariance on one sequence.
fn metamorphic(ctx: &mut Ctx, index: u64, seq: &[usize], r: &mut Rng) {
    let base_text = build(seq, "\n", true);
    let base = base_text.as_bytes();
    let mut variants: Vec<(String, &'static str)> = Vec::new();
    // blank / whitespace-only anywhere
    {
        let mut lines: Vec<&str> = seq.iter().map(|&i| ALPHABET[i]).collect();
        let at = r.below(lines.len() + 1);
        lines.insert(at, ["", "   ", "\t", " \t "][r.below(4)]);
        variants.push((lines.join("\n") + "\n", "blank-inserted"));
    }
    // comment after the first non-blank line
    {
        let lines: Vec<&str> = seq.iter().map(|&i| ALPHABET[i]).collect();
        if let Some(first) = lines.iter().position(|l| !l.trim_end().is_empty()) {
            let mut l2 = lines.clone();
            let at = first + 1 + r.below(l2.len() - first);
            l2.insert(at, ["// inserted", "  // inserted", "//", "//[General]"][r.below(4)]);
            variants.push((l2.join("\n") + "\n", "comment-inserted"));
        }
    }
    // CRLF, but only if no line of the sequence already ends in CR-sensitive content
    variants.push((build(seq, "\r\n", true), "crlf"));
    ctx.case(index, base, |ctx| {
        let Ok(m0) = rosu_map::from_bytes::<Beatmap>(base) else { return };
        let f0 = cmp::full(&m0);
        for (text, what) in &variants {
            let Ok(m1) = rosu_map::from_bytes::<Beatmap>(text.as_bytes()) else { continue };
            ctx.count(&format!("metamorphic_{what}"));
            if cmp::full(&m1) != f0 {
                ctx.violation(
                    "filler_changes_outcome",
                    format!("variant '{what}' decodes differently\n base: {base_text:?}\n variant: {text:?}"),
                    index,
                    text.as_bytes(),
                );
            }
        }
    });
}
