//! C14 — hit-object lines decode per the legacy grammar.
//!
//! Refuting event: a line (in its context: first object / after a spinner / other)
//! for which the object pushed by the public `parse_hit_objects` — i.e. before
//! map-level defaults — differs from the reference parser, or whose accept/reject
//! decision differs.

use rosu_map::{
    section::hit_objects::{HitObjects, HitObjectsState},
    DecodeBeatmap, DecodeState,
};

use crate::{
    gen::osu,
    model::hitobject::{self, RObj},
    util::{fnv64, Ctx, Rng, J},
};

struct Lockstep {
    state: HitObjectsState,
    first: bool,
    after_spinner: bool,
}

impl Lockstep {
    fn new() -> Self {
        Self {
            state: <HitObjects as DecodeBeatmap>::State::create(14),
            first: true,
            after_spinner: false,
        }
    }

    /// feed one line to the real parser and to the reference; Err(text) on disagreement
    fn feed(&mut self, line: &str) -> Result<Option<RObj>, String> {
        let before = self.state.hit_objects.len();
        let res = HitObjects::parse_hit_objects(&mut self.state, line);
        let exp = hitobject::parse(line, self.first, self.after_spinner);
        let ctxt = if self.first {
            "first object"
        } else if self.after_spinner {
            "after a spinner"
        } else {
            "after a non-spinner"
        };
        match (res, exp) {
            (Ok(()), Some(e)) => {
                if self.state.hit_objects.len() != before + 1 {
                    return Err(format!("accepted line pushed {} objects", self.state.hit_objects.len() - before));
                }
                let got = hitobject::proj(&self.state.hit_objects[before]);
                if !hitobject::same(&got, &e) {
                    return Err(format!("decoded object differs from the reference ({ctxt})\n real:      {got:?}\n reference: {e:?}"));
                }
                self.first = false;
                self.after_spinner = e.is_spinner();
                Ok(Some(e))
            }
            (Err(_), None) => {
                if self.state.hit_objects.len() != before {
                    return Err("rejected line pushed an object".into());
                }
                Ok(None)
            }
            (Ok(()), None) => Err(format!("real parser accepts, reference rejects ({ctxt})")),
            (Err(e), Some(x)) => Err(format!("real parser rejects ({e:?}), reference accepts as {x:?} ({ctxt})")),
        }
    }
}

pub fn run(ctx: &mut Ctx) {
    if let Some(lit) = ctx.literal.clone() {
        let text = String::from_utf8_lossy(&lit).into_owned();
        let lines: Vec<String> = text.lines().map(str::to_string).collect();
        history(ctx, 0, &lines);
        return;
    }
    let small = ctx.leg == "miri";
    if !small {
        exhaustive_circles(ctx);
    }
    // histories of generated lines fed into one long-lived state
    let n = ctx.n(6_000, 150_000);
    let per = if small { 6 } else { 40 };
    let gen_hist = |r: &mut Rng| -> Vec<String> {
        (0..per)
            .map(|_| {
                if small {
                    slider_line(r)
                } else {
                    match r.below(4) {
                        0 => {
                            let cfg = osu::Cfg { hostile: [1u8, 2][r.below(2)], ..osu::Cfg::default() };
                            let mode = r.below(4) as u8;
                            let t = r.range(-1000, 100000) as f64;
                            osu::hit_object_line(r, &cfg, mode, t).line
                        }
                        1 => slider_line(r),
                        _ => field_wise_line(r),
                    }
                }
            })
            .collect()
    };
    if small {
        // Miri leg: histories generated natively, executed under the interpreter
        let inputs: Vec<Vec<u8>> = match ctx.read_inputs() {
            Some(v) => v,
            None => (0..n).map(|i| gen_hist(&mut ctx.rng_for(0, i)).join("\n").into_bytes()).collect(),
        };
        if ctx.emit_inputs(&inputs) {
            return;
        }
        for (i, b) in inputs.iter().enumerate() {
            let lines: Vec<String> = String::from_utf8_lossy(b).lines().map(str::to_string).collect();
            history(ctx, i as u64, &lines);
            if ctx.out_of_time() {
                break;
            }
        }
        return;
    }
    for i in 0..n {
        if ctx.only.is_some_and(|k| k != i) {
            continue;
        }
        let mut r = ctx.rng_for(0, i);
        let lines = gen_hist(&mut r);
        history(ctx, i, &lines);
        if ctx.out_of_time() {
            break;
        }
    }
}

fn history(ctx: &mut Ctx, index: u64, lines: &[String]) {
    let witness = lines.join("\n");
    let mut accepted = 0u64;
    ctx.progress(0, index, witness.as_bytes());
    ctx.case(index, witness.as_bytes(), |ctx| {
        let mut ls = Lockstep::new();
        for (k, line) in lines.iter().enumerate() {
            match ls.feed(line) {
                Ok(Some(o)) => {
                    accepted += 1;
                    ctx.count(match o.kind {
                        hitobject::RKind::Circle { .. } => "accepted_circle",
                        hitobject::RKind::Slider { .. } => "accepted_slider",
                        hitobject::RKind::Spinner { .. } => "accepted_spinner",
                        hitobject::RKind::Hold { .. } => "accepted_hold",
                    });
                    if let hitobject::RKind::Slider { cps, .. } = &o.kind {
                        if cps.iter().filter(|c| c.2.is_some()).count() > 1 {
                            ctx.count("multi_segment_sliders");
                        }
                    }
                }
                Ok(None) => ctx.count("rejected_lines"),
                Err(why) => {
                    ctx.violation("grammar_mismatch", format!("line {} {line:?}: {why}", k + 1), index, witness.as_bytes());
                    return;
                }
            }
        }
    });
    for line in lines {
        ctx.eval(fnv64(line.as_bytes()), true);
    }
    let _ = accepted;
    if ctx.want_sample() && index % 59 == 13 {
        ctx.sample(J::O(vec![("lines".into(), J::A(lines.iter().take(6).map(|l| J::s(l.clone())).collect()))]));
    }
}

/// every type byte x every hit-sound byte for a circle-shaped line, in the three contexts
fn exhaustive_circles(ctx: &mut Ctx) {
    let mut n = 0u64;
    for ty in 0..256u32 {
        if u64::from(ty) % ctx.nshards != ctx.shard {
            continue;
        }
        for snd in 0..256u32 {
            let line = format!("{},{},{},{ty},{snd},{}:{}:0:0:", 100 + ty, 50 + snd / 2, 1000 + ty * 10, snd % 4, (snd / 4) % 4);
            for context in 0..3 {
                let prefix: Vec<String> = match context {
                    0 => vec![],
                    1 => vec!["256,192,500,12,0,900".to_string()],
                    _ => vec!["10,10,500,1,0".to_string()],
                };
                let mut lines = prefix;
                lines.push(line.clone());
                let witness = lines.join("\n");
                ctx.case(u64::from(ty) << 16 | u64::from(snd) << 2 | context, witness.as_bytes(), |ctx| {
                    let mut ls = Lockstep::new();
                    for l in &lines {
                        if let Err(why) = ls.feed(l) {
                            ctx.violation("grammar_mismatch", format!("type byte {ty}, sound byte {snd}, line {l:?}: {why}"), u64::from(ty) << 16 | u64::from(snd) << 2 | context, witness.as_bytes());
                            return;
                        }
                    }
                });
                n += 1;
            }
            ctx.eval(fnv64(line.as_bytes()), true);
        }
    }
    ctx.add("exhaustive_type_sound_context_cases", n);
    ctx.report.exhaustive = Some(true);
    ctx.note("exhaustive part: all 256 type bytes x 256 hit-sound bytes of a circle-shaped line in three contexts (first object, after a spinner, after a circle)");
}

const NUMS: &[&str] = &["0", "1", "256", "-5", "511.9", "131072", "131073", "-131072", "-131072.9", "1e3", "", "x", "NaN", "inf", "2147483647", "2147483648", "12.5", "+7", " 9 ", "-0", "-0.9", "0.99",
    // values on which single and double precision disagree after truncation / at the limit
    "200.99999999", "0.99999999", "-0.99999999", "131071.999", "131072.001", "-131072.001", "131071.99", "16777217"];
const INTS: &[&str] = &["0", "1", "2", "3", "4", "9", "-1", "100", "9000", "9001", "2147483647", "2147483648", "", "x", "1.5", " 2 ", "+3", "-2147483648"];

fn bank(r: &mut Rng) -> String {
    match r.below(9) {
        0 => String::new(),
        1 => "0:0".into(),
        2 => format!("{}:{}", r.below(5), r.below(5)),
        3 => format!("{}:{}:{}", r.below(4), r.below(4), r.pick(INTS)),
        4 => format!("{}:{}:{}:{}", r.below(4), r.below(4), r.below(5), r.pick(&["0", "50", "-3", "100", "x", "101"])),
        5 => format!("{}:{}:{}:{}:{}", r.below(4), r.below(4), r.below(3), r.below(101), r.pick(&["", "a.wav", "b c.ogg", "x:y.wav"])),
        6 => format!("{}", r.below(4)),
        7 => format!("{}:{}:0:0:", r.pick(INTS), r.pick(INTS)),
        _ => format!(":{}", r.below(4)),
    }
}

fn path_str(r: &mut Rng, x: i64, y: i64) -> String {
    let letters = ["B", "L", "P", "C", "B3", "B0", "Bx", "X", "b", "B-1", "P2"];
    let mut p = String::from(*r.pick(&letters));
    let n = r.below(8);
    let mut last = (x, y);
    let collinear = r.chance(1, 6);
    for i in 0..n {
        match r.below(14) {
            0 => {
                p.push('|');
                p.push_str(*r.pick(&letters[..]));
                continue;
            }
            1 | 2 => {
                p.push_str(&format!("|{}:{}", last.0, last.1));
                continue;
            }
            3 => {
                p.push('|');
                p.push_str(*r.pick(&["", "1", "1:", ":1", "a:b", "1:2:3", "131073:0", "1.7:2.2", "-131072:131072", " 3 : 4 ", "1e2:5", "200.99999999:0.99999999", "131071.999:5", "5:131072.001", "-131072.001:0", "99.99999999:-0.99999999"][..]));
                continue;
            }
            4 if i == 0 => {
                p.push_str(&format!("|{x}:{y}"));
                last = (x, y);
                continue;
            }
            _ => {}
        }
        last = if collinear { (last.0 + 30, last.1 + 15) } else { (r.range(-50, 600), r.range(-50, 450)) };
        if r.chance(1, 12) {
            // fractional coordinates: truncated, in double precision for path points
            p.push_str(&format!("|{}{}:{}{}", last.0, r.pick(&[".5", ".99999999", ".000001", ".9"]), last.1, r.pick(&[".25", ".99999999", ".9999999"])));
            continue;
        }
        p.push_str(&format!("|{}:{}", last.0, last.1));
    }
    p
}

/// a well-formed-ish slider line (used for the Miri leg and a quarter of the histories)
fn slider_line(r: &mut Rng) -> String {
    let x = r.range(0, 512);
    let y = r.range(0, 384);
    let rep = 1 + r.below(4);
    let mut line = format!("{x},{y},{},{},{},{},{rep},{}", r.range(0, 100000), 2 | if r.chance(1, 2) { 4 } else { 0 }, r.below(16), path_str(r, x, y), 20 + r.below(300));
    if r.chance(2, 3) {
        line.push(',');
        line.push_str(&(0..=rep).map(|_| format!("{}", r.below(16))).collect::<Vec<_>>().join("|"));
        line.push(',');
        line.push_str(&(0..=rep).map(|_| format!("{}:{}", r.below(4), r.below(4))).collect::<Vec<_>>().join("|"));
        if r.chance(1, 2) {
            line.push(',');
            line.push_str(&bank(r));
        }
    }
    line
}

/// field-wise generator over all extras shapes and boundary numerics
fn field_wise_line(r: &mut Rng) -> String {
    let coord = |r: &mut Rng| if r.chance(1, 8) { (*r.pick(NUMS)).to_string() } else { format!("{}", r.below(512)) };
    let x = coord(r);
    let y = coord(r);
    let t = if r.chance(1, 8) { (*r.pick(NUMS)).to_string() } else { format!("{}", r.below(100_000)) };
    let kind = r.below(4);
    let base = [1i32, 2, 8, 128][kind];
    let ty = if r.chance(1, 10) {
        r.range(-2, 300) as i32
    } else {
        base | if r.chance(1, 2) { 4 } else { 0 } | if r.chance(1, 3) { (r.below(8) as i32) << 4 } else { 0 } | if r.chance(1, 12) { [1, 2, 8, 128][r.below(4)] } else { 0 }
    };
    let snd = if r.chance(1, 10) { (*r.pick(INTS)).to_string() } else { format!("{}", r.below(16)) };
    let mut line = format!("{x},{y},{t},{ty},{snd}");
    match kind {
        0 => {
            if r.chance(3, 4) {
                line.push(',');
                line.push_str(&bank(r));
            }
        }
        1 => {
            let xi = x.trim().parse::<f64>().map_or(0, |v| v.clamp(-200_000.0, 200_000.0) as i64);
            let yi = y.trim().parse::<f64>().map_or(0, |v| v.clamp(-200_000.0, 200_000.0) as i64);
            line.push(',');
            line.push_str(&path_str(r, xi, yi));
            if r.chance(19, 20) {
                line.push(',');
                line.push_str(&if r.chance(1, 6) { (*r.pick(INTS)).to_string() } else { format!("{}", 1 + r.below(4)) });
            }
            let extra = r.below(5);
            if extra >= 1 {
                line.push(',');
                line.push_str(&if r.chance(1, 6) { (*r.pick(NUMS)).to_string() } else { format!("{}", r.below(400)) });
            }
            if extra >= 2 {
                line.push(',');
                let k = r.below(6);
                line.push_str(&(0..k).map(|_| if r.chance(1, 8) { "x".to_string() } else { format!("{}", r.below(300)) }).collect::<Vec<_>>().join("|"));
            }
            if extra >= 3 {
                line.push(',');
                let k = r.below(6);
                line.push_str(&(0..k).map(|_| bank(r)).collect::<Vec<_>>().join("|"));
            }
            if extra >= 4 {
                line.push(',');
                line.push_str(&bank(r));
            }
        }
        2 => {
            if r.chance(9, 10) {
                line.push(',');
                line.push_str(&if r.chance(1, 6) { (*r.pick(NUMS)).to_string() } else { format!("{}", r.below(120_000)) });
                if r.chance(1, 2) {
                    line.push(',');
                    line.push_str(&bank(r));
                }
            }
        }
        _ => {
            if r.chance(4, 5) {
                line.push(',');
                if r.chance(1, 6) {
                    line.push_str(*r.pick(NUMS));
                } else {
                    line.push_str(&format!("{}", r.below(120_000)));
                }
                if r.chance(1, 2) {
                    line.push(':');
                    line.push_str(&bank(r));
                }
            }
        }
    }
    if r.chance(1, 30) {
        line.push_str(" // c");
    }
    line
}
