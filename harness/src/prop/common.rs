//! Helpers shared by several monitors: the hostile input stream of C01/C04/C07,
//! resource estimation for the encoder, decoding shortcuts.

use rosu_map::{
    section::{
        general::GameMode,
        hit_objects::{CurveBuffers, HitObjectKind},
        timing_points::{DifficultyPoint, TimingPoint},
    },
    Beatmap,
};

use crate::{
    gen::{self, osu, Corpus, Enc, ENCS},
    util::Rng,
};

pub struct Input {
    pub bytes: Vec<u8>,
    pub class: &'static str,
    pub enc: &'static str,
}

fn force_mode(r: &mut Rng, bytes: &mut Vec<u8>) {
    // "Mode: N" / "Mode:N" in UTF-8 texts
    if let Some(p) = bytes.windows(5).position(|w| w == b"Mode:") {
        let mut q = p + 5;
        while q < bytes.len() && bytes[q] == b' ' {
            q += 1;
        }
        if q < bytes.len() && bytes[q].is_ascii_digit() {
            bytes[q] = b'0' + r.below(4) as u8;
        }
    } else if let Some(p) = bytes.windows(10).position(|w| w == b"[General]\n") {
        let ins = format!("Mode: {}\n", r.below(4));
        let at = p + 10;
        bytes.splice(at..at, ins.bytes());
    }
}

/// Many objects and control points whose times are distinct but closer than any tolerance, listed out of
/// order: the inputs on which a tolerance-based time comparison stops being a total order (sorting more
/// than 20 such items may then panic) or merges what equality keeps apart.
pub fn near_equal_times_map(r: &mut Rng) -> String {
    const TIMES: &[&str] = &["0", "-0", "0.00000000000000015", "0.0000000000000003", "4.9e-324", "0.5", "0.50000000000000011", "0.50000000000000022", "0.00000000000000045"];
    let mode = r.below(4);
    let mut s = format!("osu file format v14\n\n[General]\nMode: {mode}\n\n[TimingPoints]\n");
    let ntp = if r.chance(1, 2) { 22 + r.below(20) } else { 1 + r.below(6) };
    for i in 0..ntp {
        let t = *r.pick(TIMES);
        if i == 0 || r.chance(1, 3) {
            s.push_str(&format!("{t},{},4,{},0,{},1,{}\n", [500, 333, 250][r.below(3)], 1 + r.below(3), [100, 60, 30][r.below(3)], r.below(2)));
        } else {
            s.push_str(&format!("{t},-{},4,{},{},{},0,{}\n", [100, 50, 200, 80][r.below(4)], 1 + r.below(3), r.below(3), [100, 70, 20][r.below(3)], r.below(2)));
        }
    }
    s.push_str("\n[HitObjects]\n");
    let nobj = 21 + r.below(25);
    for _ in 0..nobj {
        let t = *r.pick(TIMES);
        let (x, y) = (r.below(512), r.below(384));
        match r.below(if mode == 3 { 4 } else { 3 }) {
            0 | 1 => s.push_str(&format!("{x},{y},{t},{},{},0:0:0:0:\n", 1 | if r.chance(1, 4) { 4 } else { 0 }, r.below(16))),
            2 => s.push_str(&format!("{x},{y},{t},2,{},L|{}:{},{},{}\n", r.below(16), x + 40, y + 10, 1 + r.below(2), 40 + r.below(80))),
            _ => s.push_str(&format!("{x},{y},{t},128,{},{}:0:0:0:0:\n", r.below(16), [1, 2, 50][r.below(3)])),
        }
    }
    s
}

/// The hostile input stream shared by C01, C04 and C07.
pub fn hostile_input(r: &mut Rng, corpus: &Corpus, max_len: usize) -> Input {
    let (mut bytes, class): (Vec<u8>, &'static str) = match r.below(13) {
        0 => (gen::noise(r), "noise"),
        12 => (near_equal_times_map(r).into_bytes(), "near-equal-times"),
        1 | 2 | 3 => {
            let cfg = osu::Cfg {
                hostile: 2,
                chrono: r.chance(1, 2),
                scramble: r.chance(1, 3),
                all_keys: r.chance(1, 2),
                ..osu::Cfg::default()
            };
            (osu::gen_map(r, &cfg).text().into_bytes(), "grammar-hostile")
        }
        4 | 5 => {
            let cfg = osu::Cfg {
                hostile: 1,
                chrono: r.chance(2, 3),
                scramble: r.chance(1, 4),
                near_object_points: r.chance(1, 3),
                near_times: r.chance(1, 5),
                ..osu::Cfg::default()
            };
            (osu::gen_map(r, &cfg).text().into_bytes(), "grammar-accepted")
        }
        6 | 7 | 8 if !corpus.files.is_empty() => {
            let a = &corpus.files[r.below(corpus.files.len())].1;
            let b = &corpus.files[r.below(corpus.files.len())].1;
            let a = Corpus::window(r, a, max_len.min(48 * 1024));
            let mut v = gen::mutate(r, &a, b);
            if r.chance(1, 2) {
                force_mode(r, &mut v);
            }
            (v, "bundled-mutant")
        }
        9 => {
            let cfg = osu::Cfg::default();
            let t = osu::gen_map(r, &cfg).text().into_bytes();
            (gen::mutate(r, &t, b"[HitObjects]\n1,1,1,1,1\n"), "grammar-mutant")
        }
        10 if !corpus.files.is_empty() => {
            let a = &corpus.files[r.below(corpus.files.len())].1;
            let mut v = Corpus::window(r, a, max_len.min(48 * 1024));
            if r.chance(1, 2) {
                force_mode(r, &mut v);
            }
            (v, "bundled")
        }
        _ => {
            let cfg = osu::Cfg {
                hostile: 2,
                chrono: false,
                scramble: true,
                ..osu::Cfg::default()
            };
            (osu::gen_map(r, &cfg).text().into_bytes(), "grammar-scrambled")
        }
    };
    // encoding variants
    let mut enc = "as-is";
    if r.chance(2, 5) {
        if let Ok(text) = std::str::from_utf8(&bytes) {
            let e: Enc = ENCS[1 + r.below(3)];
            let text = gen::strip_bom_char(text);
            let mut v = gen::transcode(text, e);
            enc = e.name();
            if r.chance(1, 6) && v.len() > 4 {
                // damage: odd tail, lone surrogate, stray invalid bytes
                match r.below(3) {
                    0 => {
                        v.pop();
                    }
                    1 => {
                        let i = 2 + 2 * r.below((v.len() - 2) / 2);
                        let s = 0xD800u16 + r.below(0x800) as u16;
                        let b = if e == Enc::Utf16Be { s.to_be_bytes() } else { s.to_le_bytes() };
                        if i + 1 < v.len() {
                            v[i] = b[0];
                            v[i + 1] = b[1];
                        }
                    }
                    _ => {
                        let i = r.below(v.len());
                        v[i] = 0x80 + r.below(0x80) as u8;
                    }
                }
                enc = "damaged";
            }
            bytes = v;
        }
    } else if r.chance(1, 8) && !bytes.is_empty() {
        // raw invalid UTF-8 injection
        for _ in 0..1 + r.below(3) {
            let i = r.below(bytes.len());
            bytes[i] = [0x80u8, 0xBF, 0xC0, 0xC3, 0xE2, 0xF0, 0xFF, 0xED][r.below(8)];
        }
        enc = "invalid-utf8";
    }
    // truncation
    if r.chance(1, 10) && !bytes.is_empty() {
        let k = r.below(bytes.len() + 1);
        bytes.truncate(k);
    }
    if bytes.len() > max_len {
        bytes.truncate(max_len);
    }
    Input { bytes, class, enc }
}

/// Estimated number of slider events the encoder will iterate for this map
/// (mirrors how the encoder derives tick distance; used only as a resource bound).
pub fn encode_cost(m: &mut Beatmap) -> f64 {
    if !matches!(m.mode, GameMode::Osu | GameMode::Catch) {
        return m.hit_objects.len() as f64;
    }
    let mut bufs = CurveBuffers::default();
    let mut total = m.hit_objects.len() as f64;
    let tick_rate = m.slider_tick_rate;
    let sm = m.slider_multiplier;
    let version = m.format_version;
    let mode = m.mode;
    for h in m.hit_objects.iter_mut() {
        let start = h.start_time;
        if let HitObjectKind::Slider(ref mut s) = h.kind {
            let beat_len = m
                .control_points
                .timing_point_at(start)
                .map_or(TimingPoint::DEFAULT_BEAT_LEN, |p| p.beat_len);
            let (sv, gen_ticks) = m
                .control_points
                .difficulty_point_at(start)
                .map_or((DifficultyPoint::DEFAULT_SLIDER_VELOCITY, true), |p| {
                    (p.slider_velocity, p.generate_ticks)
                });
            // the bound is computed for the range the format allows (slider velocity within [0.1, 10]): a library
            // that lets a value outside it through must not be able to talk the monitor out of running the case
            let sv = sv.clamp(0.1, 10.0);
            let mult = if version < 8 { sv.recip() } else { 1.0 };
            let tick_dist = if mode == GameMode::Osu {
                if gen_ticks {
                    s.velocity * beat_len / tick_rate * mult
                } else {
                    f64::INFINITY
                }
            } else {
                100.0 * sm / tick_rate * mult
            };
            let dist = s.path.curve_with_bufs(&mut bufs).dist().min(100_000.0);
            let spans = f64::from(s.span_count());
            let per_span = if tick_dist > 0.0 && tick_dist.is_finite() {
                (dist / tick_dist).max(0.0)
            } else {
                0.0
            };
            let c = spans * (per_span + 1.0);
            if c.is_finite() {
                total += c;
            } else {
                return f64::INFINITY;
            }
        }
    }
    total
}

pub const ENCODE_COST_LIMIT: f64 = 2.0e6;

pub fn mode_name(m: GameMode) -> &'static str {
    match m {
        GameMode::Osu => "osu",
        GameMode::Taiko => "taiko",
        GameMode::Catch => "catch",
        GameMode::Mania => "mania",
    }
}

/// Reference driver of C05: feed a line-dispatch trace to the *public* section parsers.
pub fn beatmap_from_trace(t: &crate::obs::recorder::Trace) -> Beatmap {
    use rosu_map::{BeatmapState, DecodeBeatmap, DecodeState};
    let mut st = BeatmapState::create(t.version);
    for (sec, line) in &t.calls {
        let _ = match sec {
            0 => Beatmap::parse_general(&mut st, line),
            1 => Beatmap::parse_editor(&mut st, line),
            2 => Beatmap::parse_metadata(&mut st, line),
            3 => Beatmap::parse_difficulty(&mut st, line),
            4 => Beatmap::parse_events(&mut st, line),
            5 => Beatmap::parse_timing_points(&mut st, line),
            6 => Beatmap::parse_colors(&mut st, line),
            7 => Beatmap::parse_hit_objects(&mut st, line),
            8 => Beatmap::parse_variables(&mut st, line),
            9 => Beatmap::parse_catch_the_beat(&mut st, line),
            _ => Beatmap::parse_mania(&mut st, line),
        };
    }
    st.into()
}

/// Domain test of C02/C03: are the *accepted* timing-point lines and the *accepted*
/// hit-object lines of this input each in non-decreasing time order? Acceptance is
/// decided by the public per-line parsers on a scratch state, the time is the first
/// (timing) / third (object) field.
pub fn is_chronological(bytes: &[u8]) -> bool {
    use crate::obs::recorder::Trace;
    use rosu_map::{
        section::{hit_objects::HitObjects, timing_points::TimingPoints},
        DecodeBeatmap, DecodeState,
    };
    let Ok(trace) = rosu_map::from_bytes::<Trace>(bytes) else { return false };
    let tc = |s: &str| -> String { s.find("//").map_or(s, |i| &s[..i]).trim_end().to_string() };
    let mut last_tp = f64::NEG_INFINITY;
    let mut last_ho = f64::NEG_INFINITY;
    let mut ho_state = <HitObjects as DecodeBeatmap>::State::create(14);
    for (sec, line) in &trace.calls {
        match sec {
            5 => {
                let mut st = <TimingPoints as DecodeBeatmap>::State::create(14);
                if TimingPoints::parse_timing_points(&mut st, line).is_ok() {
                    let l = tc(line);
                    let Some(t) = l.split(',').next().and_then(|f| f.trim().parse::<f64>().ok()) else { return false };
                    if t < last_tp {
                        return false;
                    }
                    last_tp = t;
                }
            }
            7 => {
                if HitObjects::parse_hit_objects(&mut ho_state, line).is_ok() {
                    let Some(t) = ho_state.hit_objects.last().map(|h| h.start_time) else { return false };
                    ho_state.hit_objects.clear();
                    if t < last_ho {
                        return false;
                    }
                    last_ho = t;
                }
            }
            _ => {}
        }
    }
    true
}
