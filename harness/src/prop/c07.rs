//! C07 — specialised decoders agree with the full decoder.
//!
//! Refuting event: input `x`, decoder `T`, shared field `f` with
//! `from_bytes::<T>(x).f != from_bytes::<Beatmap>(x).f` (compared through `{:?}`,
//! which is exact for floats and distinguishes -0.0 / NaN-safe).

use rosu_map::{
    section::{
        colors::Colors, difficulty::Difficulty, editor::Editor, events::Events, general::General,
        hit_objects::HitObjects, metadata::Metadata, timing_points::TimingPoints,
    },
    Beatmap,
};

use crate::{
    gen::Corpus,
    obs::cmp,
    prop::common::{hostile_input, Input},
    util::{fnv64, show, Ctx, J},
};

pub fn run(ctx: &mut Ctx) {
    let corpus = Corpus::load(&ctx.repo);
    if corpus.files.is_empty() {
        ctx.inconclusive(format!("no bundled maps found under {}/resources", ctx.repo));
    }
    if let Some(lit) = ctx.literal.clone() {
        one_case(ctx, 0, &Input { bytes: lit, class: "literal", enc: "literal" });
        return;
    }
    // the unmodified bundled files first (stream 1), then the hostile stream (stream 0)
    if ctx.only.is_none() {
        for (i, (_, bytes)) in corpus.files.iter().enumerate() {
            if (i as u64) % ctx.nshards == ctx.shard {
                one_case(ctx, 1 << 56 | i as u64, &Input { bytes: bytes.clone(), class: "bundled-whole", enc: "as-is" });
            }
        }
    }
    let n = ctx.n(160_000, 4_000_000);
    for i in 0..n {
        if ctx.only.is_some_and(|k| k != i) {
            continue;
        }
        let mut r = ctx.rng_for(0, i);
        let inp = hostile_input(&mut r, &corpus, 64 * 1024);
        one_case(ctx, i, &inp);
        if ctx.out_of_time() {
            break;
        }
    }
}

macro_rules! agree {
    ($ctx:expr, $index:expr, $bytes:expr, $map:expr, $t:ty, $name:literal, $proj:path) => {{
        match rosu_map::from_bytes::<$t>($bytes) {
            Ok(v) => {
                let (a, b) = $proj(&v, $map);
                let d = cmp::diff_fields(&a, &b);
                $ctx.add("fields_compared", a.len() as u64);
                if !d.is_empty() {
                    let mut detail = format!("{} disagrees with Beatmap on {:?}", $name, d);
                    for ((k, va), (_, vb)) in a.iter().zip(b.iter()) {
                        if va != vb {
                            detail.push_str(&format!(
                                "\n  {k}: {}={} vs Beatmap={}",
                                $name,
                                &va[..va.len().min(300)],
                                &vb[..vb.len().min(300)]
                            ));
                            break;
                        }
                    }
                    $ctx.violation("disagreement", detail, $index, $bytes);
                }
            }
            Err(e) => $ctx.violation(
                "err_from_memory",
                format!("from_bytes::<{}> returned Err({e:?})", $name),
                $index,
                $bytes,
            ),
        }
    }};
}

fn one_case(ctx: &mut Ctx, index: u64, inp: &Input) {
    let bytes = &inp.bytes;
    ctx.progress(0, index, bytes);
    ctx.count(&format!("class_{}", inp.class));
    let mut nontrivial = false;
    ctx.case(index, bytes, |ctx| {
        let map = match rosu_map::from_bytes::<Beatmap>(bytes) {
            Ok(m) => m,
            Err(e) => {
                ctx.violation("err_from_memory", format!("Beatmap decode Err({e:?})"), index, bytes);
                return;
            }
        };
        let default = Beatmap::default();
        // non-trivial: at least one shared field differs from the default map
        nontrivial = cmp::full(&map) != cmp::full(&default);
        if !map.hit_objects.is_empty() {
            ctx.count("inputs_with_objects");
        }
        if !map.control_points.timing_points.is_empty() {
            ctx.count("inputs_with_timing_points");
        }
        if !map.custom_combo_colors.is_empty() || !map.custom_colors.is_empty() {
            ctx.count("inputs_with_colours");
        }
        if !map.breaks.is_empty() || !map.background_file.is_empty() {
            ctx.count("inputs_with_events");
        }
        agree!(ctx, index, bytes, &map, General, "General", cmp::proj_general);
        agree!(ctx, index, bytes, &map, Editor, "Editor", cmp::proj_editor);
        agree!(ctx, index, bytes, &map, Metadata, "Metadata", cmp::proj_metadata);
        agree!(ctx, index, bytes, &map, Difficulty, "Difficulty", cmp::proj_difficulty);
        agree!(ctx, index, bytes, &map, Events, "Events", cmp::proj_events);
        agree!(ctx, index, bytes, &map, Colors, "Colors", cmp::proj_colors);
        agree!(ctx, index, bytes, &map, TimingPoints, "TimingPoints", cmp::proj_timing_points);
        agree!(ctx, index, bytes, &map, HitObjects, "HitObjects", cmp::proj_hit_objects);
        ctx.add("decoder_comparisons", 8);
    });
    ctx.eval(fnv64(bytes), nontrivial);
    if ctx.want_sample() && nontrivial && index % 11 == 5 {
        ctx.sample(J::O(vec![
            ("class".into(), J::s(inp.class)),
            ("encoding".into(), J::s(inp.enc)),
            ("len".into(), J::U(bytes.len() as u64)),
            ("input".into(), J::s(show(bytes, 300))),
        ]));
    }
}
