//! C20 — slider event stream has the legacy structure and timing.
//!
//! Refuting events: parameters for which the collected iterator output differs from
//! the eager reference list (kinds, span indices, span start times, times/progress
//! to 1e-9 relative), or depends on the previous content of the tick buffer or on an
//! abandoned earlier iterator; structural violations (order within a span, tick set
//! differing between spans, ticks with zero tick distance, missing repeats).

use rosu_map::section::hit_objects::{SliderEvent, SliderEventType, SliderEventsIter};

use crate::{
    model::events::{self, Ev},
    util::{mix64, Ctx, Rng, J},
};

#[derive(Clone, Copy, Debug)]
struct Params {
    start: f64,
    sd: f64,
    vel: f64,
    td: f64,
    total: f64,
    spans: i32,
}

fn to_ev(e: &SliderEvent) -> Ev {
    Ev {
        k: match e.kind {
            SliderEventType::Head => 0,
            SliderEventType::Tick => 1,
            SliderEventType::Repeat => 2,
            SliderEventType::LastTick => 3,
            SliderEventType::Tail => 4,
        },
        span: e.span_idx,
        sst: e.span_start_time,
        t: e.time,
        p: e.path_progress,
    }
}

fn feq(a: f64, b: f64) -> bool {
    a.to_bits() == b.to_bits() || a == b || (a - b).abs() <= 1e-9 * a.abs().max(b.abs()) || (a.is_nan() && b.is_nan())
}

fn expected_events(p: &Params) -> f64 {
    let len = p.total.min(100_000.0);
    let td = p.td.max(0.0).min(len);
    let per = if td > 0.0 { len / td } else { 0.0 };
    f64::from(p.spans) * (per + 1.0) + 3.0
}

fn compare(got: &[Ev], exp: &[Ev]) -> Result<(), String> {
    if got.len() != exp.len() {
        return Err(format!("{} events, reference has {}", got.len(), exp.len()));
    }
    for (i, (a, b)) in got.iter().zip(exp).enumerate() {
        if a.k != b.k || a.span != b.span || !feq(a.sst, b.sst) || !feq(a.t, b.t) || !feq(a.p, b.p) {
            return Err(format!("event {i}: {a:?}, reference {b:?}"));
        }
    }
    Ok(())
}

/// structural assertions, independent of the reference list
fn structure(got: &[Ev], p: &Params) -> Result<(), String> {
    if got.first().map(|e| e.k) != Some(0) || got.iter().filter(|e| e.k == 0).count() != 1 {
        return Err("the stream does not start with exactly one head".into());
    }
    let n = got.len();
    if n < 3 || got[n - 1].k != 4 || got[n - 2].k != 3 {
        return Err("the stream does not end with last tick, tail".into());
    }
    let repeats = got.iter().filter(|e| e.k == 2).count() as i32;
    if repeats != p.spans - 1 {
        return Err(format!("{repeats} repeats for {} spans", p.spans));
    }
    let len = p.total.min(100_000.0);
    if !(p.td.max(0.0).min(len) > 0.0) && got.iter().any(|e| e.k == 1) {
        return Err("ticks although the tick distance is zero".into());
    }
    let mut reference_ticks: Option<Vec<u64>> = None;
    for s in 0..p.spans {
        let ticks: Vec<&Ev> = got.iter().filter(|e| e.k == 1 && e.span == s).collect();
        // chronological within the span
        if p.sd >= 0.0 && ticks.windows(2).any(|w| w[0].t > w[1].t) {
            return Err(format!("ticks of span {s} are not in chronological order"));
        }
        // identical placement on every span
        let mut progress: Vec<u64> = ticks.iter().map(|e| e.p.to_bits()).collect();
        progress.sort_unstable();
        match &reference_ticks {
            None => reference_ticks = Some(progress),
            Some(r) => {
                if *r != progress {
                    return Err(format!("tick progress values of span {s} differ from span 0"));
                }
            }
        }
        // never within 10 ms of travel of the span end
        for e in &ticks {
            // the distance is reconstructed from the progress value (d / len * len), which may come out a
            // unit in the last place above the distance the decision was made on; the exact boundary is
            // decided by the comparison with the reference stream, this check is the coarse independent one
            let d = e.p * len;
            if d - (len - p.vel * 10.0) > 4.0 * f64::EPSILON * len {
                return Err(format!("tick at distance {d} is within 10 ms of travel of the span end ({len})"));
            }
        }
    }
    // per span: ticks, then the repeat (except after the last span)
    let mut last_span = 0;
    let mut seen_repeat_in_span = false;
    for e in &got[1..n - 2] {
        if e.span < last_span {
            return Err("span indices go backwards".into());
        }
        if e.span > last_span {
            if !seen_repeat_in_span {
                return Err(format!("span {last_span} is not closed by a repeat"));
            }
            last_span = e.span;
            seen_repeat_in_span = false;
        }
        if e.k == 1 && seen_repeat_in_span {
            return Err(format!("tick after the repeat of span {}", e.span));
        }
        if e.k == 2 {
            seen_repeat_in_span = true;
        }
    }
    Ok(())
}

fn collect(p: &Params, buf: &mut Vec<SliderEvent>) -> Vec<Ev> {
    SliderEventsIter::new(p.start, p.sd, p.vel, p.td, p.total, p.spans, buf).map(|e| to_ev(&e)).collect()
}

fn junk(r: &mut Rng, buf: &mut Vec<SliderEvent>) {
    for _ in 0..r.below(5) {
        buf.push(SliderEvent {
            kind: [SliderEventType::Tick, SliderEventType::Repeat, SliderEventType::Head][r.below(3)],
            span_idx: r.below(9) as i32,
            span_start_time: r.f() * 100.0,
            time: r.f() * 1e4,
            path_progress: r.f(),
        });
    }
}

fn check_one(ctx: &mut Ctx, index: u64, p: &Params, buf: &mut Vec<SliderEvent>, w: &str) -> bool {
    let got = collect(p, buf);
    let exp = events::model(p.start, p.sd, p.vel, p.td, p.total, p.spans);
    ctx.add("events_compared", got.len() as u64);
    if got.iter().any(|e| e.k == 1) {
        ctx.count("streams_with_ticks");
    }
    if let Err(why) = compare(&got, &exp) {
        ctx.violation("event_stream_mismatch", format!("{p:?}: {why}"), index, w.as_bytes());
        return false;
    }
    if p.sd.is_finite() && p.td.is_finite() || p.td.is_nan() {
        if let Err(why) = structure(&got, p) {
            ctx.violation("event_stream_structure", format!("{p:?}: {why}"), index, w.as_bytes());
            return false;
        }
    }
    true
}

fn digest(p: &Params) -> u64 {
    mix64(p.start.to_bits() ^ mix64(p.sd.to_bits() ^ mix64(p.vel.to_bits() ^ mix64(p.td.to_bits() ^ mix64(p.total.to_bits() ^ p.spans as u64)))))
}

pub fn run(ctx: &mut Ctx) {
    let mut buf: Vec<SliderEvent> = Vec::new();
    // ---- exhaustive grid
    let mut idx = 0u64;
    let mut jr = ctx.rng_for(5, 0);
    for spans in 1..=6 {
        for ratio in [0.0, 1.0 / 7.0, 0.25, 1.0 / 3.0, 0.5, 1.0, 1.5, f64::NAN, f64::INFINITY] {
            for vel in [0.0, 0.1, 1.0, 5.0] {
                for sd in [1.0, 36.0, 72.0, 1000.0] {
                    for total in [0.0, 1.0, 100.0, 1000.0, 100_001.0] {
                        for start in [0.0, -500.0, 12_345.678] {
                            idx += 1;
                            if idx % ctx.nshards != ctx.shard {
                                continue;
                            }
                            let p = Params { start, sd, vel, td: ratio * total, total, spans };
                            let w = format!("{p:?}");
                            ctx.case(idx, w.as_bytes(), |ctx| {
                                junk(&mut jr, &mut buf);
                                check_one(ctx, idx, &p, &mut buf, &w);
                                // abandon an iterator half-way, then reuse the buffer
                                {
                                    let mut it = SliderEventsIter::new(p.start, p.sd, p.vel, p.td, p.total, p.spans, &mut buf);
                                    for _ in 0..3 {
                                        it.next();
                                    }
                                }
                                check_one(ctx, idx, &p, &mut buf, &w);
                            });
                            ctx.eval(digest(&p), true);
                        }
                    }
                }
            }
        }
    }
    ctx.report.exhaustive = Some(true);
    ctx.note("exhaustive part: span counts 1-6 x tick/length ratios {0,1/7,1/4,1/3,1/2,1,3/2,NaN,inf} x velocities {0,0.1,1,5} x span durations {1,36,72,1000} x lengths {0,1,100,1000,100001} x 3 start times, each with a junk-filled buffer and after an abandoned iterator");

    // ---- random parameters in playable ranges + histories sharing one buffer
    let n = ctx.n(200_000, 5_000_000);
    let mut i = 0u64;
    while i < n {
        let mut r = ctx.rng_for(0, i);
        let hist_len = 2 + r.below(19);
        let w = format!("history seed index {i}");
        ctx.case(1 << 56 | i, w.as_bytes(), |ctx| {
            for _ in 0..hist_len {
                let p = random_params(&mut r);
                if expected_events(&p) > 1e5 {
                    // very dense ticks: too many events to compare one by one in every case, but the stream must
                    // still have them; count them against the reference in a sample of these cases
                    if expected_events(&p) <= 4e6 && p.sd.is_finite() && r.chance(1, 4) {
                        let wp = format!("{p:?}");
                        let ticks = SliderEventsIter::new(p.start, p.sd, p.vel, p.td, p.total, p.spans, &mut buf).filter(|e| matches!(e.kind, SliderEventType::Tick)).count();
                        let want = events::model(p.start, p.sd, p.vel, p.td, p.total, p.spans).iter().filter(|e| e.k == 1).count();
                        ctx.count("dense_tick_streams_counted");
                        if ticks != want {
                            ctx.violation("event_stream_mismatch", format!("{p:?}: {ticks} ticks in the stream, the reference stream has {want}"), 1 << 56 | i, wp.as_bytes());
                            return;
                        }
                    } else {
                        ctx.count("skipped_resource_bound");
                    }
                    continue;
                }
                if r.chance(1, 3) {
                    junk(&mut r, &mut buf);
                }
                if r.chance(1, 4) {
                    // abandon an iterator after k events
                    let k = r.below(12);
                    let mut it = SliderEventsIter::new(p.start, p.sd, p.vel, p.td, p.total, p.spans, &mut buf);
                    for _ in 0..k {
                        it.next();
                    }
                    ctx.count("abandoned_iterators");
                }
                let wp = format!("{p:?}");
                if !check_one(ctx, 1 << 56 | i, &p, &mut buf, &wp) {
                    return;
                }
                ctx.eval(digest(&p), true);
            }
        });
        i += 1;
        if ctx.out_of_time() {
            break;
        }
    }
    // ---- the encoder as a caller of the event stream: node times at which it collects samples
    let m = ctx.n(200_000, 5_000_000) / 40;
    for i in 0..m {
        let mut r = ctx.rng_for(3, i);
        encoder_caller_case(ctx, 3 << 56 | i, &mut r);
        if ctx.out_of_time() {
            break;
        }
    }
    if ctx.want_sample() {
        let p = Params { start: 1000.0, sd: 500.0, vel: 0.28, td: 35.0, total: 140.0, spans: 3 };
        let evs = collect(&p, &mut buf);
        ctx.sample(J::O(vec![("params".into(), J::s(format!("{p:?}"))), ("events".into(), J::s(format!("{evs:?}")))]));
    }
}

/// The encoder derives the stream parameters of every slider (osu!/catch) and collects a sample
/// control point at head, every repeat and tail. Observable end to end: give every node of a
/// slider its own volume through sample points placed at the node times; after encode -> decode
/// every node must still have its volume, which requires the collected points to sit at the
/// reference stream's head / repeat / tail times (to within the 5 ms lookup leniency).
fn encoder_caller_case(ctx: &mut Ctx, index: u64, r: &mut Rng) {
    use rosu_map::{section::hit_objects::HitObjectKind, Beatmap};
    let mode = [0u8, 2][r.below(2)];
    let spans = 1 + r.below(5);
    let start = 1000 + r.below(5000);
    let len = 40 + r.below(300);
    let beat = [500.0, 333.0, 250.0][r.below(3)];
    let sv = [-100.0, -50.0, -200.0][r.below(3)];
    let version = [14, 7][r.below(2)];
    let head = format!(
        "osu file format v{version}\n[General]\nMode: {mode}\n[Difficulty]\nSliderMultiplier:{}\nSliderTickRate:{}\n[TimingPoints]\n0,{beat},4,1,0,100,1,0\n0,{sv},4,1,0,100,0,0\n",
        [1.4, 0.7, 2.0][r.below(3)],
        [1, 2, 4][r.below(3)]
    );
    let obj = format!("[HitObjects]\n100,100,{start},2,0,L|{}:100,{spans},{len}\n", 100 + len);
    let w = format!("{head}{obj}");
    ctx.case(index, w.as_bytes(), |ctx| {
        let Ok(mut m1) = rosu_map::from_str::<Beatmap>(&w) else { return };
        let Some(HitObjectKind::Slider(s)) = m1.hit_objects.first_mut().map(|h| &mut h.kind) else { return };
        let dur = s.duration();
        // reference stream: head, repeats and tail times
        let evs = events::model(start as f64, dur / spans as f64, s.velocity, 0.0, len as f64, spans as i32);
        let node_times: Vec<f64> = evs.iter().filter(|e| matches!(e.k, 0 | 2 | 4)).map(|e| e.t).collect();
        if node_times.len() != spans + 1 {
            ctx.violation("reference_nodes", format!("reference stream has {} node events for {spans} spans", node_times.len()), index, w.as_bytes());
            return;
        }
        // neighbouring nodes must be further apart than the lookup leniency to be told apart
        if dur / (spans as f64) < 12.0 {
            ctx.count("encoder_caller_skipped_short_span");
            return;
        }
        let mut text = head.clone();
        for (i, t) in node_times.iter().enumerate() {
            text.push_str(&format!("{t},{sv},4,1,0,{},0,0\n", 10 * (i + 1)));
        }
        text.push_str(&obj);
        let Ok(mut m) = rosu_map::from_str::<Beatmap>(&text) else { return };
        let volumes = |m: &Beatmap| -> Vec<i32> {
            match m.hit_objects.first().map(|h| &h.kind) {
                Some(HitObjectKind::Slider(s)) => s.node_samples.iter().map(|v| v.first().map_or(-1, |x| x.volume)).collect(),
                _ => vec![],
            }
        };
        let before = volumes(&m);
        let want: Vec<i32> = (0..=spans).map(|i| 10 * (i as i32 + 1)).collect();
        if before != want {
            // the decoder's own node lookup (C15) did not give each node its volume: not this check's business
            ctx.count("encoder_caller_skipped_decode_lookup");
            return;
        }
        let Ok(enc) = m.encode_to_string() else { return };
        let Ok(m2) = rosu_map::from_str::<Beatmap>(&enc) else { return };
        ctx.count("encoder_caller_cases");
        let after = volumes(&m2);
        if after != before {
            ctx.violation(
                "encoder_node_times",
                format!("per-node volumes {before:?} became {after:?} after encode -> decode: the encoder did not collect samples at the head / repeat / tail times {node_times:?}"),
                index,
                text.as_bytes(),
            );
        }
    });
}

/// Parameters for which a multiple of the tick distance lies exactly on (or one unit in the last place
/// next to) the cut-off `length - 10 ms of travel`: decimal tick distances and velocities, the length
/// built from them. Whether the tick exists is decided by the legacy comparison `d >= length - 10 * v`
/// on the accumulated distance; any algebraically equivalent rearrangement rounds differently here.
fn cutoff_params(r: &mut Rng) -> Params {
    let dec = |r: &mut Rng, lo: u64, hi: u64| (lo + r.below((hi - lo) as usize) as u64) as f64 / 10.0;
    let vel = if r.chance(1, 3) { (1 + r.below(5)) as f64 } else { dec(r, 1, 60) };
    let td = if r.chance(1, 3) { (5 + r.below(120)) as f64 } else { dec(r, 30, 1300) };
    let k = 1 + r.below(8);
    let mut d = 0.0;
    for _ in 0..k {
        d += td;
    }
    let mut total = d + vel * 10.0;
    match r.below(6) {
        0 => total = f64::from_bits(total.to_bits() + 1),
        1 => total = f64::from_bits(total.to_bits() - 1),
        2 => total = k as f64 * td + 10.0 * vel,
        _ => {}
    }
    let spans = 1 + r.below(4) as i32;
    let sd = if r.chance(3, 4) { total / vel } else { [72.0, 500.0, 1000.0][r.below(3)] };
    Params { start: (r.below(200_000) as f64) - 1000.0, sd, vel, td, total, spans }
}

fn random_params(r: &mut Rng) -> Params {
    if r.chance(1, 8) {
        return cutoff_params(r);
    }
    let total = match r.below(7) {
        6 => [0.0, -0.0, 0.0, 1e-300][r.below(4)],
        0 => r.f() * 10.0,
        1 => 100_000.0 + r.f() * 1000.0,
        _ => 10.0 + r.f() * 800.0,
    };
    let vel = match r.below(5) {
        0 => 0.0,
        1 => r.f() * 0.05,
        _ => 0.05 + r.f() * 3.0,
    };
    let spans = match r.below(9) {
        // the largest span counts a file can express (and one beyond)
        8 if r.chance(1, 25) => [8999, 9000, 9001][r.below(3)],
        8 => 2,
        0 => 1,
        1 => 2,
        2 => 3 + r.below(40) as i32,
        _ => 1 + r.below(4) as i32,
    };
    let td = match r.below(9) {
        // sub-pixel tick distance: hundreds of thousands of ticks per span
        8 if r.chance(1, 12) => total * 1e-6 * (0.3 + 3.0 * r.f()),
        8 => total / (3.0 + r.below(30) as f64),
        0 => 0.0,
        1 => f64::INFINITY,
        2 => total / (1.0 + r.below(8) as f64),
        3 => total * (1.0 + r.f()),
        4 => f64::NAN,
        5 => -r.f() * 10.0,
        _ => (total * (0.02 + r.f() * 0.6)).max(total / 400.0),
    };
    // thousands of spans: keep the ticks per span few
    let td = if spans >= 8999 && td.is_finite() && td > 0.0 { total * (0.6 + r.f()) } else { td };
    let sd = if vel > 0.0 && r.chance(3, 4) { total / vel } else { [1.0, 35.0, 36.0, 37.0, 72.0, 500.0, 0.0][r.below(7)] };
    Params { start: (r.f() - 0.2) * 200_000.0, sd, vel, td, total, spans }
}
