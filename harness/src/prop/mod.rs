pub mod common;

pub mod c01;
pub mod c07;

use crate::util::Ctx;

pub fn dispatch(ctx: &mut Ctx) -> bool {
    match ctx.prop.as_str() {
        "C01" => c01::run(ctx),
        "C07" => c07::run(ctx),
        _ => return false,
    }
    true
}
