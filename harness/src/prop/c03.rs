//! C03 — edits to a decoded map survive encode -> decode.
//!
//! Refuting event: decoded map `M`, edit `e` drawn from the representable-value
//! generators, `E = decode(encode(e(M)))` with `E.field != value`, or any other
//! compared field of `E` differing from `B = decode(encode(M))`.

use rosu_map::{
    section::{
        colors::{Color, CustomColor},
        events::BreakPeriod,
        general::{CountdownType, GameMode},
    },
    Beatmap,
};

use crate::{
    gen::Corpus,
    obs::cmp,
    prop::{
        c02,
        common::{encode_cost, is_chronological, ENCODE_COST_LIMIT},
    },
    util::{fnv64, show, Ctx, Rng, J},
};

const TEXT_PARTS: &[&str] = &[
    "Re:Zero", "a:b:c", ":", "::", "// not a comment", "x // y", "//", "[General]", "[HitObjects]", "osu file format v9",
    "\"quoted\"", "'single'", "comma,separated", "semi;colon", "tab\tinside", "naïve", "上海アリス幻樂団", "🎵", "한국어", "a|b",
    "Key: Value", "Title: nested", "100%", "back\\slash", "0", "-1", "1,2,3", "(paren)", "{brace}", "<angle>", "#", "&amp;",
    "zero\u{200b}width", "\u{feff}bom", "é", "ß", "Ω", "nel\u{85}inside", "nbsp\u{a0}inside", "long long long long long long long long",
    "Combo1: 1,2,3", "0,0,\"bg.jpg\",0,0", "=", "?", "!", "~", "^", "`", "$a", "\\n",
];

/// text without line breaks and without surrounding whitespace
fn text(r: &mut Rng) -> String {
    if r.chance(1, 12) {
        return String::new();
    }
    if r.chance(1, 150) {
        // a very long value: one line of tens of thousands of characters (ASCII or three-byte characters)
        let unit = if r.chance(1, 2) { "tag " } else { "\u{97f3}\u{697d} " };
        let n = 8_000 + r.below(12_000);
        return unit.repeat(n).trim().to_string();
    }
    let n = 1 + r.below(4);
    let parts: Vec<&str> = (0..n).map(|_| *r.pick(TEXT_PARTS)).collect();
    let sep = [" ", "", ": ", " - ", ","][r.below(5)];
    parts.join(sep).trim().to_string()
}

/// file name without "//", backslashes, line breaks, edge quotes/whitespace (and commas for the background)
fn file_name(r: &mut Rng, allow_comma: bool) -> String {
    let stems = ["audio", "a b", "dir/sub/file", "ünï", "背景", "x.y.z", "Re:Zero", "semi;colon", "with,comma", "q\"uote", "[bracket]", "#1", "a:b"];
    let exts = [".mp3", ".ogg", ".jpg", ".PNG", "", ".mp4", ".jpeg"];
    let mut s = format!("{}{}", r.pick(&stems), r.pick(&exts));
    if !allow_comma {
        s = s.replace(',', "_");
    }
    s
}

fn int32(r: &mut Rng) -> i32 {
    match r.below(6) {
        0 => i32::MAX,
        1 => -i32::MAX,
        2 => 0,
        3 => r.range(-1000, 1000) as i32,
        _ => r.range(-i64::from(i32::MAX), i64::from(i32::MAX)) as i32,
    }
}

fn f64v(r: &mut Rng) -> f64 {
    match r.below(8) {
        0 => 2_147_483_647.0,
        1 => -2_147_483_647.0,
        2 => 0.0,
        3 => 1e-300,
        4 => 0.1 + 0.2,
        5 => (r.f() - 0.5) * 4e9,
        6 => f64::from(r.range(-5000, 5000) as i32) / 7.0,
        _ => r.f() * 10.0,
    }
}

fn f32v(r: &mut Rng) -> f32 {
    match r.below(7) {
        0 => 2_147_483_648.0f32.next_down_compat(),
        1 => -2_147_483_520.0,
        2 => 0.0,
        3 => 1e-30,
        4 => 0.1 + 0.2,
        5 => ((r.f() - 0.5) * 20.0) as f32,
        _ => (r.f() * 10.0) as f32,
    }
}

trait NextDown {
    fn next_down_compat(self) -> Self;
}
impl NextDown for f32 {
    fn next_down_compat(self) -> f32 {
        f32::from_bits(self.to_bits() - 1)
    }
}

struct Edit {
    /// labels of `MapKey::scalars` that this edit is allowed to change
    labels: &'static [&'static str],
    /// human-readable description with the value
    what: String,
    /// verify the edited value on the re-decoded map
    verify: Box<dyn Fn(&Beatmap) -> Result<(), String>>,
    /// the edit changes how hit objects / timing are interpreted (mode): only scalars are compared
    scalars_only: bool,
    /// the edit legitimately changes which objects start a combo (breaks: the first object after
    /// each break starts a new combo, C15), so combo flags are not compared
    affects_combos: bool,
}

fn eq<T: PartialEq + std::fmt::Debug>(name: &'static str, got: &T, want: &T) -> Result<(), String> {
    if got == want {
        Ok(())
    } else {
        Err(format!("{name}: expected {want:?}, read back {got:?}"))
    }
}

macro_rules! set_text {
    ($m:expr, $r:expr, $field:ident, $label:literal) => {{
        let v = text($r);
        $m.$field = v.clone();
        Edit {
            labels: &[$label],
            what: format!("{} = {v:?}", $label),
            verify: Box::new(move |e: &Beatmap| eq($label, &e.$field, &v)),
            scalars_only: false,
            affects_combos: false,
        }
    }};
}

macro_rules! set_val {
    ($m:expr, $v:expr, $field:ident, $label:literal) => {{
        let v = $v;
        $m.$field = v.clone();
        Edit {
            labels: &[$label],
            what: format!("{} = {v:?}", $label),
            verify: Box::new(move |e: &Beatmap| {
                if format!("{:?}", e.$field) == format!("{v:?}") {
                    Ok(())
                } else {
                    Err(format!("{}: expected {v:?}, read back {:?}", $label, e.$field))
                }
            }),
            scalars_only: false,
            affects_combos: false,
        }
    }};
}

fn apply_edit(m: &mut Beatmap, r: &mut Rng) -> Edit {
    match r.below(36) {
        0 => set_text!(m, r, title, "title"),
        1 => set_text!(m, r, title_unicode, "title_unicode"),
        2 => set_text!(m, r, artist, "artist"),
        3 => set_text!(m, r, artist_unicode, "artist_unicode"),
        4 => set_text!(m, r, creator, "creator"),
        5 => set_text!(m, r, version, "version"),
        6 => set_text!(m, r, source, "source"),
        7 => set_text!(m, r, tags, "tags"),
        8 => set_val!(m, file_name(r, true), audio_file, "audio_file"),
        9 => set_val!(m, file_name(r, false), background_file, "background_file"),
        10 => set_val!(m, f64::from(int32(r)), audio_lead_in, "audio_lead_in"),
        11 => set_val!(m, int32(r), preview_time, "preview_time"),
        12 => set_val!(m, f32v(r), stack_leniency, "stack_leniency"),
        13 => set_val!(m, r.chance(1, 2), letterbox_in_breaks, "letterbox_in_breaks"),
        14 => set_val!(m, r.chance(1, 2), widescreen_storyboard, "widescreen_storyboard"),
        15 => set_val!(m, r.chance(1, 2), epilepsy_warning, "epilepsy_warning"),
        16 => set_val!(m, r.chance(1, 2), samples_match_playback_rate, "samples_match_playback_rate"),
        17 => {
            let v = [CountdownType::None, CountdownType::Normal, CountdownType::HalfSpeed, CountdownType::DoubleSpeed][r.below(4)];
            set_val!(m, v, countdown, "countdown")
        }
        18 => {
            let v = [0, 1, 5, i32::MAX, r.range(0, 100000) as i32][r.below(5)];
            m.countdown_offset = v;
            Edit {
                labels: &["countdown_offset(positive)"],
                what: format!("countdown_offset = {v}"),
                verify: Box::new(move |e: &Beatmap| eq("countdown_offset", &e.countdown_offset, &v)),
                scalars_only: false,
                affects_combos: false,
            }
        }
        19 => {
            let n = r.below(9);
            let v: Vec<i32> = (0..n).map(|_| if r.chance(1, 5) { [i32::MIN, i32::MAX, 0, -1][r.below(4)] } else { r.range(-1000, 500_000) as i32 }).collect();
            set_val!(m, v, bookmarks, "bookmarks")
        }
        20 => set_val!(m, f64v(r), distance_spacing, "distance_spacing"),
        21 => set_val!(m, int32(r), beat_divisor, "beat_divisor"),
        22 => set_val!(m, int32(r), grid_size, "grid_size"),
        23 => set_val!(m, f64v(r), timeline_zoom, "timeline_zoom"),
        24 => set_val!(m, f32v(r), hp_drain_rate, "hp_drain_rate"),
        25 => set_val!(m, f32v(r), circle_size, "circle_size"),
        26 => set_val!(m, f32v(r), overall_difficulty, "overall_difficulty"),
        27 => set_val!(m, f32v(r), approach_rate, "approach_rate"),
        28 => {
            // positive ids survive; the defaults are representable too
            let v = [1, 123_456, i32::MAX, r.range(1, 5_000_000) as i32][r.below(4)];
            m.beatmap_id = v;
            Edit {
                labels: &["beatmap_id(positive)"],
                what: format!("beatmap_id = {v}"),
                verify: Box::new(move |e: &Beatmap| eq("beatmap_id", &e.beatmap_id, &v)),
                scalars_only: false,
                affects_combos: false,
            }
        }
        29 => {
            let v = [1, 557_821, i32::MAX, r.range(1, 5_000_000) as i32][r.below(4)];
            m.beatmap_set_id = v;
            Edit {
                labels: &["beatmap_set_id(positive)"],
                what: format!("beatmap_set_id = {v}"),
                verify: Box::new(move |e: &Beatmap| eq("beatmap_set_id", &e.beatmap_set_id, &v)),
                scalars_only: false,
                affects_combos: false,
            }
        }
        30 => {
            let n = r.below(17);
            let v: Vec<Color> = (0..n).map(|_| Color::new(r.below(256) as u8, r.below(256) as u8, r.below(256) as u8, 255)).collect();
            set_val!(m, v, custom_combo_colors, "custom_combo_colors")
        }
        31 => {
            let names = ["SliderBorder", "SliderTrackOverride", "My Colour", "x=y", "Cömbo", "combo1", "[Colours]", "上", "a,b", "1", "_SliderTrackOverride", "_", "-dash", "#hash", "0", "[General] border", "osu file format v5", "Title"];
            let n = r.below(5);
            let mut v: Vec<CustomColor> = Vec::new();
            for _ in 0..n {
                let name = (*r.pick(&names)).to_string();
                if v.iter().all(|c| c.name != name) {
                    v.push(CustomColor { name, color: Color::new(r.below(256) as u8, r.below(256) as u8, r.below(256) as u8, 255) });
                }
            }
            set_val!(m, v, custom_colors, "custom_colors")
        }
        32 => {
            let n = r.below(5);
            let mut t = f64v(r).abs().min(1e6);
            let v: Vec<BreakPeriod> = (0..n)
                .map(|_| {
                    let s = t + r.f() * 5000.0;
                    let e = s + if r.chance(1, 5) { 0.0 } else { r.f() * 9000.0 };
                    t = e;
                    BreakPeriod { start_time: s, end_time: e }
                })
                .collect();
            // any list the format can write is an edit value: also breaks listed out of chronological
            // order and breaks nested inside an earlier one (the list order is what must come back)
            let mut v = v;
            match r.below(4) {
                0 if v.len() >= 2 => {
                    let (a, b) = (r.below(v.len()), r.below(v.len()));
                    v.swap(a, b);
                }
                1 if !v.is_empty() => {
                    let outer = v[0].clone();
                    let s = outer.start_time + (outer.end_time - outer.start_time) * 0.25;
                    let e = outer.start_time + (outer.end_time - outer.start_time) * 0.5;
                    v.insert(1, BreakPeriod { start_time: s, end_time: e });
                }
                _ => {}
            }
            Edit { affects_combos: true, ..set_val!(m, v, breaks, "breaks") }
        }
        33 => {
            let v = 0.4 + r.f() * 3.2;
            let v = [0.4, 3.6, 1.4, v][r.below(4)];
            Edit { scalars_only: true, ..set_val!(m, v, slider_multiplier, "slider_multiplier") }
        }
        34 => {
            let v = [0.5, 8.0, 1.0, 2.0, 0.5 + r.f() * 7.5][r.below(5)];
            set_val!(m, v, slider_tick_rate, "slider_tick_rate")
        }
        _ => {
            let v = [GameMode::Osu, GameMode::Taiko, GameMode::Catch, GameMode::Mania][r.below(4)];
            // special style is written for mania only, so it may legitimately appear/disappear with the mode
            Edit { scalars_only: true, labels: &["mode", "special_style(mania)"], ..set_val!(m, v, mode, "mode") }
        }
    }
}

pub fn run(ctx: &mut Ctx) {
    let corpus = Corpus::load(&ctx.repo);
    if corpus.files.is_empty() {
        ctx.inconclusive(format!("no bundled maps found under {}/resources", ctx.repo));
    }
    let n = ctx.n(32_000, 1_000_000);
    for i in 0..n {
        if ctx.only.is_some_and(|k| k != i) {
            continue;
        }
        let mut r = ctx.rng_for(0, i);
        let (bytes, class) = match ctx.literal.clone() {
            Some(b) => (b, "literal"),
            None => c02::gen_input(&mut r, &corpus),
        };
        one_case(ctx, i, &bytes, class, &mut r);
        if ctx.out_of_time() {
            break;
        }
    }
}

fn one_case(ctx: &mut Ctx, index: u64, bytes: &[u8], class: &str, r: &mut Rng) {
    ctx.progress(0, index, bytes);
    let mut nontrivial = false;
    let mut described = String::new();
    ctx.case(index, bytes, |ctx| {
        if !is_chronological(bytes) {
            ctx.count("skipped_not_chronological");
            return;
        }
        let Ok(mut m) = rosu_map::from_bytes::<Beatmap>(bytes) else {
            ctx.violation("err_from_memory", "decode failed".into(), index, bytes);
            return;
        };
        if encode_cost(&mut m) > ENCODE_COST_LIMIT {
            ctx.count("skipped_resource_bound");
            return;
        }
        ctx.count(&format!("class_{class}"));
        // baseline: the unedited map after one round trip
        let mut base_src = m.clone();
        let Ok(base_txt) = base_src.encode_to_string() else { return };
        let Ok(mut base) = rosu_map::from_str::<Beatmap>(&base_txt) else { return };

        let k = 1 + r.below(4);
        let mut edits: Vec<Edit> = Vec::new();
        for _ in 0..k {
            let e = apply_edit(&mut m, r);
            // a later edit of the same field replaces the earlier one
            edits.retain(|o| o.labels != e.labels);
            edits.push(e);
        }
        described = edits.iter().map(|e| e.what.clone()).collect::<Vec<_>>().join("; ");
        for e in &edits {
            ctx.count(&format!("edit_{}", e.labels[0]));
        }
        ctx.count(&format!("edits_per_case_{}", edits.len()));
        nontrivial = true;

        let edited_txt = match m.encode_to_string() {
            Ok(s) => s,
            Err(e) => {
                ctx.violation("encode_err_in_memory", format!("encoding the edited map failed: {e:?} (edits: {described})"), index, bytes);
                return;
            }
        };
        // what is read back may have gone through any sink: for a sample of the cases the edited map is written
        // through a writer that accepts a few bytes per call, and that text is the one decoded
        let edited_txt = if index % 5 == 3 {
            use crate::obs::io::{FaultWriter, WriteFault};
            let mut w = FaultWriter::new(WriteFault::None, usize::MAX);
            w.short = vec![[1usize, 4, 7][(index as usize / 5) % 3]];
            ctx.count("edited_maps_written_through_a_short_writing_sink");
            match m.encode(&mut w) {
                Ok(()) if w.out == edited_txt.as_bytes() => edited_txt,
                Ok(()) => {
                    ctx.violation("sink_changes_text", format!("a sink accepting {} byte(s) per call received different text than encode_to_string ({} vs {} bytes; edits: {described})", w.short[0], w.out.len(), edited_txt.len()), index, bytes);
                    return;
                }
                Err(e) => {
                    ctx.violation("encode_err_in_memory", format!("encode into a short-writing in-memory sink failed: {e:?}"), index, bytes);
                    return;
                }
            }
        } else {
            edited_txt
        };
        let Ok(mut got) = rosu_map::from_str::<Beatmap>(&edited_txt) else {
            ctx.violation("err_from_memory", "decoding the edited encoding failed".into(), index, bytes);
            return;
        };
        // saving the edited map over an earlier save (one scratch file per worker, reused by every case,
        // so the previous content is usually longer or shorter): the file must hold exactly this encoding
        if index % 8 == 0 && !ctx.out.is_empty() {
            let dir = std::path::Path::new(&ctx.out).parent().map(|p| p.to_path_buf()).unwrap_or_else(std::env::temp_dir);
            let path = dir.join(format!("c03-save-{}-{}.osu", std::process::id(), ctx.shard));
            match m.encode_to_path(&path) {
                Ok(()) => {
                    ctx.count("saves_over_an_existing_file");
                    match std::fs::read(&path) {
                        Ok(on_disk) if on_disk == edited_txt.as_bytes() => {}
                        Ok(on_disk) => {
                            ctx.violation(
                                "saved_file_differs",
                                format!("encode_to_path over an existing file left {} bytes on disk, the encoding has {} (edits: {described})", on_disk.len(), edited_txt.len()),
                                index,
                                bytes,
                            );
                            return;
                        }
                        Err(e) => ctx.inconclusive(format!("cannot read back the scratch file {}: {e}", path.display())),
                    }
                }
                Err(e) => ctx.inconclusive(format!("encode_to_path to the scratch file {} failed: {e}", path.display())),
            }
        }
        // 1. the edited values read back exactly
        for e in &edits {
            if let Err(why) = (e.verify)(&got) {
                ctx.violation("edit_lost", format!("{why} (all edits: {described})"), index, bytes);
                return;
            }
        }
        // 2. everything else equals the unedited round trip
        let mut times = cmp::control_point_times(&base.control_points);
        times.extend(cmp::control_point_times(&got.control_points));
        let probes = cmp::probe_times(times);
        let mut kb = cmp::map_key(&mut base, &probes);
        let mut kg = cmp::map_key(&mut got, &probes);
        if edits.iter().any(|e| e.affects_combos) {
            for k in [&mut kb, &mut kg] {
                for o in k.objects.iter_mut() {
                    o.head = o.head.replace(" nc true", " nc *").replace(" nc false", " nc *");
                }
            }
        }
        let allowed: Vec<&str> = edits.iter().flat_map(|e| e.labels.iter().copied()).collect();
        let scalars_only = edits.iter().any(|e| e.scalars_only);
        let diffs: Vec<String> = cmp::diff_keys(&kb, &kg)
            .into_iter()
            .filter(|d| match d.strip_prefix("scalar:") {
                Some(name) => !allowed.contains(&name),
                None => !scalars_only,
            })
            .collect();
        ctx.add("fields_checked_unchanged", (kb.scalars.len() - allowed.len()) as u64);
        if !diffs.is_empty() {
            let mut detail = format!("edits [{described}] changed other fields: {:?}", &diffs[..diffs.len().min(6)]);
            detail.push_str(&c02::explain(&kb, &kg, &diffs[0]));
            ctx.violation("edit_side_effect", detail, index, bytes);
        }
    });
    ctx.eval(fnv64(bytes) ^ fnv64(described.as_bytes()), nontrivial);
    if ctx.want_sample() && nontrivial && index % 37 == 11 {
        ctx.sample(J::O(vec![
            ("class".into(), J::s(class)),
            ("edits".into(), J::s(described.clone())),
            ("input".into(), J::s(show(bytes, 200))),
        ]));
    }
}
