//! C16 — a slider's curve honours the requested pixel length.
//!
//! Refuting events (finite control points, L > 0): `dist() != L` outside the two
//! stated exceptions; adjusted curve != natural curve cut/extended at L;
//! `lengths()[0] != 0`, a decrease beyond 1e-5, a non-finite length or coordinate;
//! natural `dist()` != polyline length; osu!-mode Catmull total length != other-mode
//! total length.

use rosu_map::{
    section::{
        general::GameMode,
        hit_objects::{Curve, CurveBuffers, PathControlPoint, SliderPath, SplineType},
    },
    util::Pos,
};

use crate::{
    gen::paths::{self, cp, MODES, TYPES},
    prop::c19,
    util::{mix64, Ctx, Rng, J},
};

/// reference: natural polyline (path, lengths) cut or extended at cumulative length l
fn ref_adjust(path: &[Pos], len: &[f64], l: f64) -> Option<(Vec<(f64, f64)>, Vec<f64>)> {
    let n = path.len();
    if n < 2 {
        return None;
    }
    // the segment the cut falls in: the last vertex (searching from the end, excluding the final one) whose length is below l
    let mut k = None;
    for i in (0..n - 1).rev() {
        if len[i] < l {
            k = Some(i);
            break;
        }
    }
    let k = k?;
    let (a, b) = (path[k], path[k + 1]);
    let (dx, dy) = (f64::from(b.x - a.x), f64::from(b.y - a.y));
    let d = (dx * dx + dy * dy).sqrt();
    let rest = l - len[k];
    let mut p: Vec<(f64, f64)> = path[..=k].iter().map(|p| (f64::from(p.x), f64::from(p.y))).collect();
    if d == 0.0 {
        // a segment without extent has no direction: the cut point is the vertex itself
        p.push((f64::from(a.x), f64::from(a.y)));
    } else {
        p.push((f64::from(a.x) + dx / d * rest, f64::from(a.y) + dy / d * rest));
    }
    let mut ls = len[..=k].to_vec();
    ls.push(l);
    Some((p, ls))
}

fn digest(mode: GameMode, pts: &[PathControlPoint], l: Option<f64>) -> u64 {
    let mut d = mix64(mode as u64 ^ 0x51);
    for p in pts {
        d = mix64(d ^ u64::from(p.pos.x.to_bits()) << 32 ^ u64::from(p.pos.y.to_bits()));
        d = mix64(d ^ p.path_type.map_or(9, |t| t.kind as u64 * 16 + t.degree.map_or(0, |x| x.get() as u64)));
    }
    mix64(d ^ l.map_or(7, f64::to_bits))
}

pub fn run(ctx: &mut Ctx) {
    let mut bufs = CurveBuffers::default();
    // ---- exhaustive integer grid [-3,3]^2 for 2- and 3-point paths x 4 types x L classes x 4 modes
    let mut idx = 0u64;
    let grid: Vec<(f32, f32)> = (-3..=3).flat_map(|x| (-3..=3).map(move |y| (x as f32 * 8.0, y as f32 * 8.0))).collect();
    let mut complete = true;
    'grid: for ty in TYPES {
        for &b in &grid {
            // two points
            idx += 1;
            if idx % ctx.nshards == ctx.shard {
                let pts = [cp(0.0, 0.0, Some(ty)), cp(b.0, b.1, None)];
                for mode in MODES {
                    all_lengths(ctx, idx, mode, &pts, &mut bufs, None);
                }
            }
            for &c in &grid {
                idx += 1;
                if idx % ctx.nshards != ctx.shard {
                    continue;
                }
                let pts = [cp(0.0, 0.0, Some(ty)), cp(b.0, b.1, None), cp(c.0, c.1, None)];
                for mode in MODES {
                    all_lengths(ctx, idx, mode, &pts, &mut bufs, None);
                }
            }
            if ctx.out_of_time() {
                complete = false;
                break 'grid;
            }
        }
    }
    ctx.report.exhaustive = Some(complete);
    ctx.note("exhaustive part: all 2- and 3-point paths with points on the integer grid [-3,3]^2 (x8 px) x 4 path types x 13 length classes x 4 modes");

    // ---- random control-point lists
    let n = ctx.n(40_000, 1_200_000);
    for i in 0..n {
        if ctx.only.is_some_and(|k| k != i) {
            continue;
        }
        let mut r = ctx.rng_for(0, i);
        let pts = paths::random_points(&mut r);
        let mode = MODES[r.below(4)];
        if i % 2 == 1 {
            // the shared buffers still hold an unrelated borrowed curve
            paths::dirty(&mut ctx.rng_for(9, i), &mut bufs);
            ctx.count("computed_after_a_borrowed_curve");
        }
        all_lengths(ctx, 1 << 56 | i, mode, &pts, &mut bufs, Some(&mut r));
        if ctx.out_of_time() {
            break;
        }
    }
}

/// natural curve + every length class
fn all_lengths(ctx: &mut Ctx, index: u64, mode: GameMode, pts: &[PathControlPoint], bufs: &mut CurveBuffers, mut r: Option<&mut Rng>) {
    let witness = format!("{mode:?} {}", paths::describe(pts));
    let mut nat_opt = None;
    ctx.case(index, witness.as_bytes(), |ctx| {
        let nat = Curve::new(mode, pts, None, bufs);
        natural_checks(ctx, index, mode, pts, &nat, &witness, bufs);
        nat_opt = Some(nat);
    });
    ctx.eval(digest(mode, pts, None), pts.len() >= 2);
    let Some(nat) = nat_opt else { return };
    let nd = nat.dist();
    let fr = r.as_mut().map_or(0.37, |r| r.f());
    let fr2 = r.as_mut().map_or(0.61, |r| r.f());
    let classes: [(&str, f64); 13] = [
        // positive lengths below the floating-point epsilon are still lengths
        ("below_epsilon", 1e-17),
        ("min_positive", f64::MIN_POSITIVE),
        // requested lengths next to the natural one: the request is honoured exactly, however close
        ("just_above_natural", nd + 4e-4 * (0.1 + fr)),
        ("just_below_natural", nd - 4e-4 * (0.1 + fr2)),
        ("natural_plus_1e-9", nd * (1.0 + 1e-9) + 1e-9),
        ("natural_minus_1e-9", nd * (1.0 - 1e-9) - 1e-9),
        ("tiny", 1e-3),
        ("inside", nd * fr),
        ("natural", nd),
        ("beyond", nd * (1.0 + fr2)),
        ("far_beyond", nd + 1e5 * fr2),
        ("huge", 131_072.0),
        ("small_absolute", fr * 10.0),
    ];
    // the same requests made of one long-lived slider path whose requested length is edited in place:
    // every edit has to be honoured (the curve it holds from the previous request must not survive)
    let mut edited = SliderPath::new(mode, pts.to_vec(), None);
    let _ = edited.curve().dist();
    for (class, l) in classes {
        if !(l > 0.0) || !l.is_finite() {
            continue;
        }
        ctx.count(&format!("length_class_{class}"));
        let w2 = format!("{witness} L={l:?}");
        ctx.case(index, w2.as_bytes(), |ctx| {
            let adj = Curve::new(mode, pts, Some(l), bufs);
            adjusted_checks(ctx, index, &nat, &adj, l, &w2);
            c19::relations(ctx, index, &adj, &w2, r.as_deref_mut(), false);
            *edited.expected_dist_mut() = Some(l);
            let held = edited.curve();
            ctx.count("lengths_requested_by_editing_a_path");
            if held.dist().to_bits() != adj.dist().to_bits() || held.path() != adj.path() {
                ctx.violation(
                    "edited_length_not_honoured",
                    format!("slider path whose requested length was set to {l:?} through expected_dist_mut(): distance {:?} ({} path points), a fresh curve for that length has {:?} ({} points)", held.dist(), held.path().len(), adj.dist(), adj.path().len()),
                    index,
                    w2.as_bytes(),
                );
            }
        });
        ctx.eval(digest(mode, pts, Some(l)), pts.len() >= 2);
    }
    if ctx.want_sample() && pts.len() >= 3 && index % 67 == 21 {
        ctx.sample(J::O(vec![("control_points".into(), J::s(witness)), ("natural_dist".into(), J::F(nd)), ("path_points".into(), J::U(nat.path().len() as u64))]));
    }
}

fn structural(ctx: &mut Ctx, index: u64, c: &Curve, w: &str) -> bool {
    let ls = c.lengths();
    if ls.first().map_or(true, |l| *l != 0.0) {
        ctx.violation("lengths_start", format!("cumulative lengths do not start at 0: {:?}", &ls[..ls.len().min(3)]), index, w.as_bytes());
        return false;
    }
    for (i, pair) in ls.windows(2).enumerate() {
        if !pair[1].is_finite() || pair[1] < pair[0] - 1e-5 {
            ctx.violation("lengths_not_monotone", format!("cumulative length {} = {:?} after {:?}", i + 1, pair[1], pair[0]), index, w.as_bytes());
            return false;
        }
    }
    if let Some((i, p)) = c.path().iter().enumerate().find(|(_, p)| !p.x.is_finite() || !p.y.is_finite()) {
        ctx.violation("non_finite_coordinate", format!("path point {i} is {p:?}"), index, w.as_bytes());
        return false;
    }
    true
}

fn natural_checks(ctx: &mut Ctx, index: u64, mode: GameMode, pts: &[PathControlPoint], nat: &Curve, w: &str, bufs: &mut CurveBuffers) {
    if !structural(ctx, index, nat, w) {
        return;
    }
    ctx.count("natural_curves");
    let has_catmull = pts.iter().any(|p| p.path_type.is_some_and(|t| t.kind == SplineType::Catmull)) ;
    // polyline length, accumulated like any reader of the path would
    let poly: f64 = nat.path().windows(2).map(|s| f64::from(s[0].distance(s[1]))).sum();
    if !(has_catmull && mode == GameMode::Osu) {
        if (nat.dist() - poly).abs() > 1e-9 * poly.max(1.0) {
            ctx.violation("natural_distance", format!("dist() {:?} but the polyline is {poly:?} long", nat.dist()), index, w.as_bytes());
        }
    } else {
        // simplification of Catmull paths leaves the total length unchanged
        ctx.count("osu_catmull_totals_compared");
        let other = Curve::new(GameMode::Taiko, pts, None, bufs);
        let tol = 1e-6 * other.dist().max(1.0) + 1e-3;
        if (nat.dist() - other.dist()).abs() > tol {
            ctx.violation("catmull_total_length", format!("osu! total {:?} vs unsimplified total {:?}", nat.dist(), other.dist()), index, w.as_bytes());
        }
    }
    if nat.lengths().len() != nat.path().len().max(1) {
        ctx.violation("length_count", format!("{} lengths for {} path points", nat.lengths().len(), nat.path().len()), index, w.as_bytes());
    }
}

fn adjusted_checks(ctx: &mut Ctx, index: u64, nat: &Curve, adj: &Curve, l: f64, w: &str) {
    if !structural(ctx, index, adj, w) {
        return;
    }
    ctx.count("adjusted_curves");
    let p = nat.path();
    let nd = nat.dist();
    let single = p.len() <= 1;
    let dup_end = p.len() >= 2 && p[p.len() - 1] == p[p.len() - 2] && l > nd;
    if single || dup_end {
        ctx.count(if single { "exception_single_point" } else { "exception_equal_last_points" });
        if adj.dist().to_bits() != nd.to_bits() || adj.path() != nat.path() {
            ctx.violation("exception_not_natural", format!("stated exception applies but the curve changed: dist {:?} vs natural {nd:?}", adj.dist()), index, w.as_bytes());
        }
        return;
    }
    if (nd - l).abs() < f64::EPSILON {
        ctx.count("exactly_natural");
        if adj.path() != nat.path() || adj.lengths() != nat.lengths() {
            ctx.violation("natural_changed", "requested length equals the natural length but the curve differs".into(), index, w.as_bytes());
        }
        return;
    }
    if adj.dist().to_bits() != l.to_bits() {
        ctx.violation("distance_not_requested", format!("dist() = {:?}, requested {l:?} (natural {nd:?})", adj.dist()), index, w.as_bytes());
        return;
    }
    let Some((rp, rl)) = ref_adjust(nat.path(), nat.lengths(), l) else {
        ctx.count("reference_undefined");
        return;
    };
    ctx.count(if l < nd { "cut" } else { "extended" });
    let (ap, al) = (adj.path(), adj.lengths());
    let tol = |v: f64| 1e-3 + 1e-6 * v.abs().max(l);
    let ok = ap.len() == rp.len()
        && al.len() == rl.len()
        && al.iter().zip(&rl).all(|(a, b)| a.to_bits() == b.to_bits())
        && ap.iter().zip(&rp).all(|(a, b)| (f64::from(a.x) - b.0).abs() <= tol(b.0) && (f64::from(a.y) - b.1).abs() <= tol(b.1));
    if !ok {
        let k = ap.len().saturating_sub(3);
        let kr = rp.len().saturating_sub(3);
        ctx.violation(
            "not_cut_or_extended",
            format!(
                "adjusted curve is not the natural curve cut/extended at {l:?} (natural {nd:?})\n real tail:      {:?} {:?}\n reference tail: {:?} {:?}",
                &ap[k..],
                &al[al.len().saturating_sub(3)..],
                &rp[kr..],
                &rl[rl.len().saturating_sub(3)..]
            ),
            index,
            w.as_bytes(),
        );
    }
}
