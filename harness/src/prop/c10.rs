//! C10 — text encoding is transparent.
//!
//! Refuting events: a text whose four encodings do not decode to the same line
//! dispatch trace and the same Beatmap; invalid UTF-8 / unpaired surrogates not
//! replaced exactly like std's lossy conversion applied per line (trace differs
//! from the framing model, which uses `from_utf8_lossy` / `from_utf16_lossy`);
//! damage reaching a neighbouring line; an odd UTF-16 tail producing an error.

use rosu_map::{section::metadata::Metadata, Beatmap};

use crate::{
    gen::{self, osu, Corpus, Enc, ENCS},
    model::framing,
    obs::{cmp, recorder::Trace},
    util::{fnv64, show, Ctx, J},
};

pub fn run(ctx: &mut Ctx) {
    // reading megabytes of bundled maps is slow under Miri and that leg does not use them
    let corpus = if ctx.leg == "miri" { Corpus { files: Vec::new() } } else { Corpus::load(&ctx.repo) };
    if corpus.files.is_empty() && ctx.leg != "miri" {
        ctx.inconclusive(format!("no bundled maps found under {}/resources", ctx.repo));
    }
    if let Some(lit) = ctx.literal.clone() {
        vs_model(ctx, 0, &lit, "literal");
        return;
    }
    let sanitizer_leg = ctx.leg == "miri" || ctx.leg == "asan";

    if !sanitizer_leg {
        texts(ctx, &corpus);
        scalars(ctx);
    }
    damage(ctx, &corpus, sanitizer_leg);
}

// ---------------------------------------------------------------- stream 0: whole texts

fn texts(ctx: &mut Ctx, corpus: &Corpus) {
    // bundled files (each shard takes its share), then generated texts
    let mut work: Vec<(u64, String)> = Vec::new();
    for (i, (_, bytes)) in corpus.files.iter().enumerate() {
        if (i as u64) % ctx.nshards != ctx.shard {
            continue;
        }
        let mut r = ctx.rng_for(2, i as u64);
        let w = Corpus::window(&mut r, bytes, 32 * 1024);
        if let Ok(t) = String::from_utf8(w) {
            work.push((2 << 56 | i as u64, gen::strip_bom_char(&t).to_string()));
        }
    }
    let n = ctx.n(8_000, 300_000);
    for i in 0..n {
        if ctx.only.is_some_and(|k| k != i) {
            continue;
        }
        let mut r = ctx.rng_for(0, i);
        let cfg = osu::Cfg {
            hostile: [0u8, 1, 2][r.below(3)],
            chrono: r.chance(2, 3),
            scramble: r.chance(1, 4),
            ..osu::Cfg::default()
        };
        let g = osu::gen_map(&mut r, &cfg);
        let eol = if r.chance(1, 3) { "\r\n" } else { "\n" };
        let mut text = g.text_with(eol, r.chance(3, 4));
        if ctx.leg != "miri" && ctx.leg != "asan" && r.chance(1, 250) {
            // one very long line (its UTF-16 form is twice, its CJK UTF-8 form three times as many bytes)
            let unit = if r.chance(1, 2) { "tag " } else { "\u{97f3}\u{697d} " };
            text.push_str(&format!("{eol}[Metadata]{eol}Tags:{}{eol}Source: after the long line{eol}", unit.repeat(9_000 + r.below(12_000))));
        }
        work.push((i, text));
        if work.len() >= 64 {
            for (idx, t) in work.drain(..) {
                cross_encoding(ctx, idx, &t);
            }
            if ctx.out_of_time() {
                return;
            }
        }
    }
    for (idx, t) in work.drain(..) {
        cross_encoding(ctx, idx, &t);
    }
}

fn cross_encoding(ctx: &mut Ctx, index: u64, text: &str) {
    let utf8 = text.as_bytes();
    if gen::starts_like_bom(utf8) {
        // a BOM-less UTF-8 text that begins with BOM-like bytes is not the same text without them
        ctx.count("skipped_text_starting_with_bom_bytes");
        return;
    }
    let mut nontrivial = false;
    ctx.case(index, utf8, |ctx| {
        let (Ok(t0), Ok(m0)) = (rosu_map::from_bytes::<Trace>(utf8), rosu_map::from_bytes::<Beatmap>(utf8)) else {
            ctx.violation("err_from_memory", "decode of the UTF-8 form failed".into(), index, utf8);
            return;
        };
        nontrivial = !t0.calls.is_empty();
        if text.chars().any(|c| !c.is_ascii()) {
            ctx.count("texts_with_non_ascii");
        }
        let f0 = cmp::full(&m0);
        for enc in [Enc::Utf8Bom, Enc::Utf16Le, Enc::Utf16Be] {
            let bytes = gen::transcode(text, enc);
            ctx.count(&format!("cross_{}", enc.name()));
            match (rosu_map::from_bytes::<Trace>(&bytes), rosu_map::from_bytes::<Beatmap>(&bytes)) {
                (Ok(t), Ok(m)) => {
                    if t != t0 {
                        let k = t.calls.iter().zip(&t0.calls).position(|(a, b)| a != b).unwrap_or(t.calls.len().min(t0.calls.len()));
                        ctx.violation(
                            "encoding_changes_trace",
                            format!(
                                "{} decodes to a different line dispatch than UTF-8 (versions {} vs {}, {} vs {} lines, first difference at call {k}: {:?} vs {:?})",
                                enc.name(), t.version, t0.version, t.calls.len(), t0.calls.len(), t.calls.get(k), t0.calls.get(k)
                            ),
                            index,
                            &bytes,
                        );
                    } else if cmp::full(&m) != f0 {
                        ctx.violation("encoding_changes_value", format!("{} decodes to a different Beatmap than UTF-8", enc.name()), index, &bytes);
                    } else if index % 4 == 0 {
                        // the encoding must also be recognised when the BOM arrives in pieces
                        use rosu_map::DecodeBeatmap;
                        for sizes in [vec![1usize, usize::MAX], vec![2, usize::MAX], vec![1, 1, usize::MAX]] {
                            ctx.count("chunked_deliveries_checked");
                            match Trace::decode(crate::obs::io::ChunkReader::new(&bytes, sizes.clone(), Vec::new())) {
                                Ok(t) if t == t0 => {}
                                other => {
                                    ctx.violation(
                                        "encoding_changes_trace",
                                        format!("{} read through chunk sizes {sizes:?} decodes differently than UTF-8: {}", enc.name(), match other { Ok(t) => format!("version {} and {} lines vs {} and {}", t.version, t.calls.len(), t0.version, t0.calls.len()), Err(e) => format!("Err({e:?})") }),
                                        index,
                                        &bytes,
                                    );
                                    break;
                                }
                            }
                        }
                    }
                }
                (a, b) => ctx.violation(
                    "err_from_memory",
                    format!("{}: decode returned an error: {:?} {:?}", enc.name(), a.err(), b.err()),
                    index,
                    &bytes,
                ),
            }
        }
    });
    ctx.eval(fnv64(utf8), nontrivial);
    if ctx.want_sample() && nontrivial && index % 17 == 2 {
        ctx.sample(J::O(vec![("kind".into(), J::s("cross-encoding text")), ("text".into(), J::s(show(utf8, 200)))]));
    }
}

// ---------------------------------------------------------------- stream 1: every scalar value

fn scalars(ctx: &mut Ctx) {
    let exhaustive = !ctx.quick();
    let mut complete = true;
    let mut c: u32 = ctx.shard as u32;
    let step = ctx.nshards as u32;
    let mut n = 0u64;
    while c <= 0x10FFFF {
        // quick tier: a spread sample plus every boundary of the encodings' case distinctions: bytes equal to the
        // line feed, the edges of the surrogate block and of the planes, and supplementary characters whose lead or
        // trail surrogate is the first / last of its range (trail = low ten bits, lead = the bits above)
        let edge = |v: u32| v <= 1 || v >= 0x3FE;
        let boundary = (0xD7F0..=0xE010).contains(&c)
            || (0xFFF0..=0x1_000F).contains(&c)
            || c >= 0x10_FFF0
            || (c >= 0x1_0000 && (edge(c & 0x3FF) || (edge((c - 0x1_0000) >> 10) && c % 8 == 7)));
        let take = exhaustive || c < 0x1000 || c % 16 == 0 || (c & 0xFF) == 0x0A || (c >> 8) & 0xFF == 0x0A || boundary;
        if take {
            if let Some(ch) = char::from_u32(c) {
                scalar_case(ctx, ch);
                n += 1;
                if n % 2048 == 0 && ctx.out_of_time() {
                    complete = false;
                    break;
                }
            }
        }
        c += step;
    }
    // pairs of code units around the line-feed byte patterns: U+xx00 followed by U+0Ayy (a 00 0A byte
    // pair across two units in big-endian order) and U+xx0A followed by U+00yy (0A .. 00 in little-endian)
    let stride = if exhaustive { 1 } else { 3 };
    let mut k = ctx.shard as u32;
    let mut pairs = 0u64;
    while k < 256 * 256 {
        let (a, b) = (k / 256, k % 256);
        if (k / ctx.nshards as u32) % stride == 0 && a != 0 && !(0xD8..=0xDF).contains(&a) {
            for (c1, c2) in [(a << 8, 0x0A00 | b), ((a << 8) | 0x0A, b.max(0x20))] {
                if let (Some(x), Some(y)) = (char::from_u32(c1), char::from_u32(c2)) {
                    pair_case(ctx, x, y);
                    pairs += 1;
                }
            }
        }
        k += ctx.nshards as u32;
        if pairs % 4096 == 4095 && ctx.out_of_time() {
            complete = false;
            break;
        }
    }
    ctx.add("scalar_pairs_checked", pairs);
    if exhaustive {
        ctx.report.exhaustive = Some(complete);
        ctx.note("exhaustive part: every Unicode scalar value as metadata content in UTF-8+BOM, UTF-16LE and UTF-16BE, in two positions");
    }
}

fn pair_case(ctx: &mut Ctx, c1: char, c2: char) {
    let index = 5 << 56 | (c1 as u64) << 24 | c2 as u64;
    for text in [format!("[Metadata]\nTitle:{c1}{c2}\nArtist: z\n"), format!("[Metadata]\nArtist: z\nTitle: {c1}{c2}")] {
        let utf8 = text.as_bytes();
        ctx.case(index, utf8, |ctx| {
            let exp = framing::model(utf8);
            let Ok(md0) = rosu_map::from_bytes::<Metadata>(utf8) else { return };
            for enc in [Enc::Utf8Bom, Enc::Utf16Le, Enc::Utf16Be] {
                let bytes = gen::transcode(&text, enc);
                match (rosu_map::from_bytes::<Trace>(&bytes), rosu_map::from_bytes::<Metadata>(&bytes)) {
                    (Ok(t), Ok(md)) => {
                        if t != exp || md != md0 {
                            ctx.violation(
                                "scalar_pair_mismatch",
                                format!("U+{:04X} U+{:04X} in {}: title {:?} / artist {:?}, UTF-8 gives {:?} / {:?}; dispatch {}", c1 as u32, c2 as u32, enc.name(), md.title, md.artist, md0.title, md0.artist, t.render()),
                                index,
                                &bytes,
                            );
                        }
                    }
                    (a, b) => ctx.violation("err_from_memory", format!("U+{:04X} U+{:04X} in {}: {:?} {:?}", c1 as u32, c2 as u32, enc.name(), a.err(), b.err()), index, &bytes),
                }
            }
        });
        ctx.eval(fnv64(utf8), true);
    }
}

fn scalar_case(ctx: &mut Ctx, ch: char) {
    let index = 1 << 56 | ch as u64;
    for (form, text) in [
        ("inner", format!("osu file format v14\n[Metadata]\nTitle: a{ch}b\nArtist: z\n")),
        ("whole", format!("[Metadata]\nTitle:{ch}\nArtist: z")),
        // the scalar is the very last character of a file without a final line feed
        ("last", format!("[Metadata]\nArtist: z\nTitle: a{ch}")),
    ] {
        let utf8 = text.as_bytes();
        let mut nontrivial = false;
        ctx.case(index, utf8, |ctx| {
            let exp = framing::model(utf8);
            nontrivial = exp.calls.len() >= 2;
            let Ok(md0) = rosu_map::from_bytes::<Metadata>(utf8) else {
                ctx.violation("err_from_memory", "UTF-8 decode failed".into(), index, utf8);
                return;
            };
            // independent expectation for the neighbouring line: it is never affected
            if md0.artist != "z" {
                ctx.violation("neighbour_line_affected", format!("U+{:04X} ({form}) changed the neighbouring line: artist = {:?}", ch as u32, md0.artist), index, utf8);
            }
            for enc in ENCS {
                let bytes = if enc == Enc::Utf8 { utf8.to_vec() } else { gen::transcode(&text, enc) };
                ctx.count("scalar_encodings_checked");
                match (rosu_map::from_bytes::<Trace>(&bytes), rosu_map::from_bytes::<Metadata>(&bytes)) {
                    (Ok(t), Ok(md)) => {
                        if t != exp {
                            ctx.violation(
                                "scalar_trace_mismatch",
                                format!("U+{:04X} ({form}) in {}: dispatch {} differs from the model {}", ch as u32, enc.name(), t.render(), exp.render()),
                                index,
                                &bytes,
                            );
                        } else if md != md0 {
                            ctx.violation(
                                "scalar_value_mismatch",
                                format!("U+{:04X} ({form}) in {}: title {:?} / artist {:?} but UTF-8 gives {:?} / {:?}", ch as u32, enc.name(), md.title, md.artist, md0.title, md0.artist),
                                index,
                                &bytes,
                            );
                        }
                    }
                    (a, b) => ctx.violation("err_from_memory", format!("U+{:04X} in {}: {:?} {:?}", ch as u32, enc.name(), a.err(), b.err()), index, &bytes),
                }
            }
        });
        ctx.eval(fnv64(utf8), nontrivial);
    }
    ctx.count("scalars_checked");
    if (ch as u32) & 0xFF == 0x0A || ((ch as u32) >> 8) & 0xFF == 0x0A {
        ctx.count("scalars_with_0a_byte");
    }
    if ch as u32 > 0xFFFF {
        ctx.count("scalars_supplementary");
    }
}

// ---------------------------------------------------------------- stream 3: damage vs lossy model

fn damage(ctx: &mut Ctx, corpus: &Corpus, small: bool) {
    if small {
        // sanitizer legs: inputs are generated natively (emit mode) and only executed under the tool
        if let Some(inputs) = ctx.read_inputs() {
            for (i, bytes) in inputs.into_iter().enumerate() {
                vs_model(ctx, 3 << 56 | i as u64, &bytes, "pregenerated-damage");
                if ctx.out_of_time() {
                    break;
                }
            }
            return;
        }
    }
    let mut collected: Vec<Vec<u8>> = Vec::new();
    let collect = ctx.emit.is_some();
    damage_gen(ctx, corpus, small, &mut |ctx, index, bytes, class| {
        if collect {
            collected.push(bytes.to_vec());
        } else {
            vs_model(ctx, index, bytes, class);
        }
    });
    if collect {
        ctx.emit_inputs(&collected);
    }
}

fn damage_gen(ctx: &mut Ctx, corpus: &Corpus, small: bool, sink: &mut dyn FnMut(&mut Ctx, u64, &[u8], &'static str)) {
    let n = ctx.n(60_000, 1_500_000);
    for i in 0..n {
        if ctx.only.is_some_and(|k| k != (3 << 56 | i)) {
            continue;
        }
        let mut r = ctx.rng_for(3, i);
        let cfg = osu::Cfg {
            hostile: [0u8, 1][r.below(2)],
            max_objects: if small { 2 } else { 6 },
            max_tp: if small { 2 } else { 5 },
            all_keys: !small,
            ..osu::Cfg::default()
        };
        let mut text = if !small && r.chance(1, 4) && !corpus.files.is_empty() {
            let f = &corpus.files[r.below(corpus.files.len())].1;
            let w = Corpus::window(&mut r, f, 4096);
            match String::from_utf8(w) {
                Ok(t) => gen::strip_bom_char(&t).to_string(),
                Err(_) => osu::gen_map(&mut r, &cfg).text(),
            }
        } else {
            osu::gen_map(&mut r, &cfg).text()
        };
        if small && text.len() > 700 {
            let mut cut = 700;
            while !text.is_char_boundary(cut) {
                cut -= 1;
            }
            text.truncate(cut);
        }
        let index = 3 << 56 | i;
        match r.below(4) {
            0 | 1 => {
                // invalid UTF-8 bytes, in UTF-8 or UTF-8+BOM
                let mut bytes = if r.chance(1, 3) { gen::transcode(&text, Enc::Utf8Bom) } else { text.clone().into_bytes() };
                let k = 1 + r.below(4);
                for _ in 0..k {
                    if bytes.is_empty() {
                        break;
                    }
                    let at = r.below(bytes.len());
                    match r.below(4) {
                        0 => bytes[at] = [0x80u8, 0xBF, 0xC0, 0xC1, 0xF5, 0xFF, 0xFE][r.below(7)],
                        1 => {
                            // truncated multi-byte sequence
                            let seqs: [&[u8]; 4] = [&[0xE4, 0xB8], &[0xF0, 0x9F, 0x8E], &[0xC3], &[0xED, 0xA0, 0x80]];
                            let s = seqs[r.below(4)];
                            bytes.splice(at..at, s.iter().copied());
                        }
                        2 => {
                            // overlong / surrogate encodings
                            let seqs: [&[u8]; 3] = [&[0xC0, 0xAF], &[0xE0, 0x80, 0xAF], &[0xED, 0xBF, 0xBF]];
                            let s = seqs[r.below(3)];
                            bytes.splice(at..at, s.iter().copied());
                        }
                        _ => {
                            // right before a line feed / at the very end
                            if let Some(p) = bytes.iter().position(|b| *b == b'\n') {
                                bytes.insert(p, 0xE2);
                            }
                            bytes.push(0xF0);
                        }
                    }
                }
                if gen::starts_like_bom(&bytes) && !bytes.starts_with(&[0xEF, 0xBB, 0xBF]) {
                    continue;
                }
                ctx.count("damage_invalid_utf8");
                sink(ctx, index, &bytes, "invalid-utf8");
            }
            2 => {
                // lone surrogates / reversed pairs in UTF-16
                let enc = if r.chance(1, 2) { Enc::Utf16Le } else { Enc::Utf16Be };
                let mut units: Vec<u16> = text.encode_utf16().collect();
                for _ in 0..1 + r.below(3) {
                    let at = r.below(units.len() + 1);
                    let u = match r.below(3) {
                        0 => 0xD800 + r.below(0x400) as u16,
                        1 => 0xDC00 + r.below(0x400) as u16,
                        _ => 0xDBFF,
                    };
                    units.insert(at, u);
                    if r.chance(1, 4) {
                        units.insert(at, 0xDC00 + r.below(0x400) as u16); // low before high
                    }
                }
                let bytes = gen::units_to_bytes(&units, enc);
                ctx.count("damage_lone_surrogates");
                sink(ctx, index, &bytes, "lone-surrogate");
            }
            _ => {
                // odd tails: cut at every byte of the last two lines
                let enc = if r.chance(1, 2) { Enc::Utf16Le } else { Enc::Utf16Be };
                let bytes = gen::transcode(&text, enc);
                let tail_start = {
                    let lines: Vec<usize> = text.match_indices('\n').map(|(p, _)| p).collect();
                    let p = if lines.len() >= 3 { lines[lines.len() - 3] + 1 } else { 0 };
                    2 + 2 * text[..p].encode_utf16().count()
                };
                let cuts = if small { 6 } else { 80 };
                let mut c = bytes.len();
                let mut done = 0;
                while c >= tail_start.min(bytes.len()) && done < cuts {
                    ctx.count("damage_truncated_utf16");
                    if c % 2 == 1 {
                        ctx.count("odd_utf16_tails");
                    }
                    sink(ctx, index, &bytes[..c], "utf16-truncated");
                    done += 1;
                    if c == 0 {
                        break;
                    }
                    c -= 1;
                }
            }
        }
        if ctx.out_of_time() {
            break;
        }
    }
}

/// Real line dispatch vs the framing model on arbitrary bytes; decode must be Ok.
fn vs_model(ctx: &mut Ctx, index: u64, bytes: &[u8], class: &str) {
    ctx.progress(3, index & ((1 << 56) - 1), bytes);
    let mut nontrivial = false;
    ctx.case(index, bytes, |ctx| {
        let exp = framing::model(bytes);
        nontrivial = exp.calls.iter().any(|(_, l)| l.contains('\u{FFFD}'));
        if nontrivial {
            ctx.count("inputs_with_replacement_in_dispatched_line");
        }
        match rosu_map::from_bytes::<Trace>(bytes) {
            Ok(t) => {
                if t != exp {
                    let k = t.calls.iter().zip(&exp.calls).position(|(a, b)| a != b).unwrap_or(t.calls.len().min(exp.calls.len()));
                    ctx.violation(
                        "lossy_mismatch",
                        format!(
                            "{class}: line dispatch differs from per-line lossy conversion (versions {} vs {}, {} vs {} lines; first difference at call {k}: real {:?} vs model {:?})",
                            t.version, exp.version, t.calls.len(), exp.calls.len(), t.calls.get(k), exp.calls.get(k)
                        ),
                        index,
                        bytes,
                    );
                }
            }
            Err(e) => ctx.violation("err_from_memory", format!("{class}: decode returned Err({e:?})"), index, bytes),
        }
        if let Err(e) = rosu_map::from_bytes::<Beatmap>(bytes) {
            ctx.violation("err_from_memory", format!("{class}: Beatmap decode returned Err({e:?})"), index, bytes);
        }
    });
    ctx.eval(fnv64(bytes), nontrivial);
    if ctx.want_sample() && nontrivial && index % 19 == 4 {
        ctx.sample(J::O(vec![("kind".into(), J::s(class)), ("input".into(), J::s(show(bytes, 200)))]));
    }
}
