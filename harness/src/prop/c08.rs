//! C08 — the result depends on the bytes only, not on how they are delivered.
//!
//! Refuting event: bytes `b` and a delivery path (from_str, from_path, BufReader of
//! any capacity, a reader exposing scheduled chunks, with or without transient
//! `Interrupted` results) whose decoded result (line dispatch trace and Beatmap)
//! differs from `from_bytes(b)`, or which returns an error.

use std::io::{BufReader, Cursor};

use rosu_map::{Beatmap, DecodeBeatmap};

use crate::{
    gen::{self, osu, Corpus, ENCS},
    obs::{cmp, io::ChunkReader, recorder::Trace},
    util::{fnv64, show, Ctx, Rng, J},
};

pub fn run(ctx: &mut Ctx) {
    let corpus = Corpus::load(&ctx.repo);
    if corpus.files.is_empty() {
        ctx.inconclusive(format!("no bundled maps found under {}/resources", ctx.repo));
    }
    if let Some(lit) = ctx.literal.clone() {
        let mut r = ctx.rng_for(9, 0);
        one_input(ctx, 0, &lit, "literal", &mut r, true);
        return;
    }

    // stream 2: exhaustive tiny files over a BOM-ish alphabet (BOM sniffing with short first chunks)
    let alpha: [u8; 9] = [0xEF, 0xBB, 0xBF, 0xFF, 0xFE, b'\n', b'a', 0x00, b'['];
    let max_len = if ctx.quick() { 4 } else { 5 };
    let content = "osu file format v9\n[Metadata]\nTitle:t\n";
    let tails: [Vec<u8>; 3] = [
        content.as_bytes().to_vec(),
        content.encode_utf16().flat_map(u16::to_le_bytes).collect(),
        content.encode_utf16().flat_map(u16::to_be_bytes).collect(),
    ];
    let mut idx = 0u64;
    for len in 0..=max_len {
        let total = (alpha.len() as u64).pow(len);
        for code in 0..total {
            idx += 1;
            if idx % ctx.nshards != ctx.shard {
                continue;
            }
            let mut c = code;
            let bytes: Vec<u8> = (0..len)
                .map(|_| {
                    let b = alpha[(c % 9) as usize];
                    c /= 9;
                    b
                })
                .collect();
            let mut r = ctx.rng_for(2, idx);
            one_input(ctx, 2 << 56 | idx, &bytes, "tiny-bomish", &mut r, false);
            // the same head followed by real content in each encoding: what the head was taken for
            // (BOM, text, line break) decides how the content is read, so a sniffing difference shows
            if len >= 2 {
                for (k, tail) in tails.iter().enumerate() {
                    let mut b = bytes.clone();
                    b.extend_from_slice(tail);
                    one_input(ctx, 2 << 56 | (k as u64 + 1) << 48 | idx, &b, "tiny-bomish-with-content", &mut r, false);
                }
            }
        }
    }
    // two and three byte-order marks in a row (only the first one is a BOM), followed by content
    if ctx.shard == 0 {
        let boms: [&[u8]; 3] = [&[0xEF, 0xBB, 0xBF], &[0xFF, 0xFE], &[0xFE, 0xFF]];
        let mut k = 0u64;
        for (bi, bom) in boms.iter().enumerate() {
            for reps in 2..=3usize {
                let mut b = Vec::new();
                for _ in 0..reps {
                    b.extend_from_slice(bom);
                }
                b.extend_from_slice(&tails[bi]);
                k += 1;
                let mut r = ctx.rng_for(4, k);
                one_input(ctx, 4 << 56 | k, &b, "repeated-bom-with-content", &mut r, false);
            }
        }
    }
    ctx.note(format!("exhaustive part: all {} byte strings of length <= {max_len} over [EF BB BF FF FE LF 'a' 00 '['] under every fixed chunk size", idx));

    // stream 3: one line far longer than any buffer a reader might size for itself (over 1 MiB), a few deliveries
    if ctx.shard == 0 {
        long_line_case(ctx);
    }

    // stream 1: bundled files in four encodings
    for (i, (_, bytes)) in corpus.files.iter().enumerate() {
        if (i as u64) % ctx.nshards != ctx.shard {
            continue;
        }
        let mut r = ctx.rng_for(1, i as u64);
        let limit = if ctx.quick() { 3 * 1024 } else { 12 * 1024 };
        let w = Corpus::window(&mut r, bytes, limit);
        if let Ok(t) = std::str::from_utf8(&w) {
            let t = gen::strip_bom_char(t);
            for enc in ENCS {
                let b = gen::transcode(t, enc);
                one_input(ctx, 1 << 56 | (i as u64) << 8 | enc as u64, &b, "bundled", &mut r, true);
            }
        }
        if ctx.out_of_time() {
            return;
        }
    }

    // stream 0: generated files
    let n = ctx.n(1_600, 50_000);
    for i in 0..n {
        if ctx.only.is_some_and(|k| k != i) {
            continue;
        }
        let mut r = ctx.rng_for(0, i);
        let cfg = osu::Cfg {
            hostile: [0u8, 1, 2][r.below(3)],
            chrono: r.chance(2, 3),
            scramble: r.chance(1, 4),
            max_objects: 6,
            max_tp: 4,
            all_keys: r.chance(1, 2),
            ..osu::Cfg::default()
        };
        let g = osu::gen_map(&mut r, &cfg);
        let text = g.text_with(if r.chance(1, 3) { "\r\n" } else { "\n" }, r.chance(3, 4));
        let enc = ENCS[r.below(4)];
        let mut bytes = gen::transcode(&text, enc);
        if r.chance(1, 8) && !bytes.is_empty() {
            let k = r.below(bytes.len() + 1);
            bytes.truncate(k);
        }
        one_input(ctx, i, &bytes, "generated", &mut r, true);
        if ctx.out_of_time() {
            break;
        }
    }
}

fn long_line_case(ctx: &mut Ctx) {
    for (k, unit) in ["a", "\u{97f3}"].iter().enumerate() {
        let text = format!("osu file format v9\n[Metadata]\nTitle:{}\nArtist:after the long line\n", unit.repeat(1_200_000 / unit.len()));
        for enc in [gen::Enc::Utf8, gen::Enc::Utf16Le] {
            let bytes = gen::transcode(&text, enc);
            let index = 3 << 56 | (k as u64) << 8 | enc as u64;
            let w = format!("a {}-byte file whose third line has {} bytes", bytes.len(), bytes.len() - 60);
            ctx.case(index, w.as_bytes(), |ctx| {
                let Ok(t0) = rosu_map::from_bytes::<Trace>(&bytes) else {
                    ctx.violation("err_from_memory", "from_bytes failed".into(), index, w.as_bytes());
                    return;
                };
                ctx.count("long_line_files");
                let deliveries: Vec<(&str, Result<Trace, String>)> = vec![
                    ("BufReader::new", Trace::decode(BufReader::new(Cursor::new(&bytes))).map_err(|e| format!("{e:?}"))),
                    ("BufReader::with_capacity(65536)", Trace::decode(BufReader::with_capacity(65536, Cursor::new(&bytes))).map_err(|e| format!("{e:?}"))),
                    ("chunks of 4096", Trace::decode(ChunkReader::new(&bytes, vec![4096], Vec::new())).map_err(|e| format!("{e:?}"))),
                    ("chunks of 1000000, 5", Trace::decode(ChunkReader::new(&bytes, vec![1_000_000, 5], Vec::new())).map_err(|e| format!("{e:?}"))),
                ];
                for (what, res) in deliveries {
                    ctx.count("long_line_deliveries_compared");
                    match res {
                        Ok(t) if t == t0 => {}
                        Ok(t) => ctx.violation(
                            "delivery_changes_trace",
                            format!("{what}: a file with one very long line is dispatched differently than by from_bytes ({} vs {} lines, longest {} vs {} bytes)", t.calls.len(), t0.calls.len(), t.calls.iter().map(|c| c.1.len()).max().unwrap_or(0), t0.calls.iter().map(|c| c.1.len()).max().unwrap_or(0)),
                            index,
                            w.as_bytes(),
                        ),
                        Err(e) => ctx.violation("delivery_error", format!("{what}: decode returned Err({e}) although the reader never failed"), index, w.as_bytes()),
                    }
                }
            });
            ctx.eval(fnv64(w.as_bytes()), true);
        }
    }
}

fn results<R: std::io::BufRead>(mk: impl Fn() -> R, with_map: bool) -> Result<(Trace, Option<String>), String> {
    let t = Trace::decode(mk()).map_err(|e| format!("{e:?}"))?;
    let m = if with_map {
        Some(cmp::full(&Beatmap::decode(mk()).map_err(|e| format!("{e:?}"))?))
    } else {
        None
    };
    Ok((t, m))
}

fn one_input(ctx: &mut Ctx, index: u64, bytes: &[u8], class: &str, r: &mut Rng, random_schedules: bool) {
    ctx.count(&format!("class_{class}"));
    let mut nontrivial = false;
    let mut pairs = 0u64;
    ctx.case(index, bytes, |ctx| {
        let (t0, m0) = match results(|| Cursor::new(bytes), true) {
            Ok((t, m)) => (t, m.unwrap()),
            Err(e) => {
                ctx.violation("err_from_memory", format!("from_bytes failed: {e}"), index, bytes);
                return;
            }
        };
        nontrivial = !t0.calls.is_empty() || bytes.len() <= 6;
        let mut check = |ctx: &mut Ctx, what: String, res: Result<(Trace, Option<String>), String>| {
            pairs += 1;
            match res {
                Ok((t, m)) => {
                    if t != t0 {
                        ctx.violation(
                            "delivery_changes_trace",
                            format!("{what}: line dispatch differs from from_bytes (version {} vs {}, {} vs {} lines)", t.version, t0.version, t.calls.len(), t0.calls.len()),
                            index,
                            bytes,
                        );
                    } else if m.is_some_and(|m| m != m0) {
                        ctx.violation("delivery_changes_value", format!("{what}: Beatmap differs from from_bytes"), index, bytes);
                    }
                }
                Err(e) => ctx.violation("delivery_error", format!("{what}: decode returned Err({e}) although the reader never failed"), index, bytes),
            }
        };

        if let Ok(s) = std::str::from_utf8(bytes) {
            ctx.count("from_str_compared");
            let res = rosu_map::from_str::<Trace>(s)
                .and_then(|t| rosu_map::from_str::<Beatmap>(s).map(|m| (t, Some(cmp::full(&m)))))
                .map_err(|e| format!("{e:?}"));
            check(ctx, "from_str".into(), res);
            // the other public string / byte entry points of the full decoder
            ctx.count("inherent_entry_points_compared");
            let res = s.parse::<Beatmap>().map(|m| (t0.clone(), Some(cmp::full(&m)))).map_err(|e| format!("{e:?}"));
            check(ctx, "str::parse::<Beatmap>()".into(), res);
        }
        {
            let res = Beatmap::from_bytes(bytes).map(|m| (t0.clone(), Some(cmp::full(&m)))).map_err(|e| format!("{e:?}"));
            check(ctx, "Beatmap::from_bytes".into(), res);
        }
        if index % 8 == 0 {
            // from_path on a scratch file next to the evidence output
            let dir = std::path::Path::new(&ctx.out).parent().map(|p| p.to_path_buf()).unwrap_or_else(std::env::temp_dir);
            let path = dir.join(format!("c08-{}-{}.osu", std::process::id(), ctx.shard));
            if std::fs::write(&path, bytes).is_ok() {
                ctx.count("from_path_compared");
                let res = rosu_map::from_path::<Trace>(&path)
                    .and_then(|t| rosu_map::from_path::<Beatmap>(&path).map(|m| (t, Some(cmp::full(&m)))))
                    .map_err(|e| format!("{e:?}"));
                check(ctx, "from_path".into(), res);
                let res = Beatmap::from_path(&path).map(|m| (t0.clone(), Some(cmp::full(&m)))).map_err(|e| format!("{e:?}"));
                check(ctx, "Beatmap::from_path".into(), res);
                let _ = std::fs::remove_file(&path);
            }
            // ... and a path that is not a regular file: a named pipe fed by another thread (its reported size is 0
            // and the bytes arrive in pieces)
            if index % 64 == 0 && !bytes.is_empty() {
                let fifo = dir.join(format!("c08-{}-{}.fifo", std::process::id(), ctx.shard));
                let _ = std::fs::remove_file(&fifo);
                let made = std::process::Command::new("mkfifo").arg(&fifo).status().map(|s| s.success()).unwrap_or(false);
                if made {
                    let data = bytes.to_vec();
                    let wpath = fifo.clone();
                    let writer = std::thread::spawn(move || {
                        use std::io::Write;
                        if let Ok(mut f) = std::fs::OpenOptions::new().write(true).open(&wpath) {
                            for chunk in data.chunks(4096) {
                                if f.write_all(chunk).is_err() {
                                    break;
                                }
                            }
                        }
                    });
                    ctx.count("from_path_on_a_named_pipe");
                    let res = rosu_map::from_path::<Trace>(&fifo).map(|t| (t, None)).map_err(|e| format!("{e:?}"));
                    let _ = writer.join();
                    check(ctx, "from_path on a named pipe".into(), res);
                    let _ = std::fs::remove_file(&fifo);
                } else {
                    ctx.count("named_pipe_unavailable");
                }
            }
        }
        for cap in 1..=16usize {
            ctx.count("bufreader_capacities_compared");
            let res = results(|| BufReader::with_capacity(cap, Cursor::new(bytes)), cap % 4 == 1);
            check(ctx, format!("BufReader::with_capacity({cap})"), res);
        }
        for size in 1..=64usize {
            ctx.count("fixed_chunk_sizes_compared");
            let res = results(|| ChunkReader::new(bytes, vec![size], Vec::new()), size % 16 == 1);
            check(ctx, format!("fixed chunk size {size}"), res);
        }
        // transient interruptions throughout the stream, not just a few: one before every call / every other call
        for (size, every) in [(1usize, 2u64), (2, 2), (3, 2), (1, 3), (7, 2)] {
            if bytes.len() > 6000 && size < 3 {
                continue;
            }
            ctx.count("periodic_interrupt_schedules_compared");
            let res = results(|| ChunkReader::periodic(bytes, vec![size], every), false);
            check(ctx, format!("chunk size {size} with an Interrupted before every {} call(s)", every - 1), res);
        }
        if random_schedules {
            let k = if ctx.quick() { 20 } else { 60 };
            for j in 0..k {
                let s = gen::random_schedule(r, j % 2 == 1);
                let first = s.sizes[0];
                ctx.seen("first_chunk_sizes", format!("{:05}", first.min(99999)));
                if !s.interrupts.is_empty() {
                    ctx.count("schedules_with_interrupts");
                }
                ctx.count("random_schedules_compared");
                let fired = std::cell::Cell::new(0u64);
                let res = results(
                    || {
                        let rd = ChunkReader::new(bytes, s.sizes.clone(), s.interrupts.clone());
                        CountingReader { inner: rd, fired: &fired }
                    },
                    j % 5 == 0,
                );
                ctx.add("interrupts_fired", fired.get());
                check(ctx, format!("schedule {}", s.describe()), res);
            }
        }
    });
    ctx.add("byte_schedule_pairs", pairs);
    ctx.eval(fnv64(bytes), nontrivial);
    if ctx.want_sample() && nontrivial && index % 23 == 7 {
        ctx.sample(J::O(vec![
            ("class".into(), J::s(class)),
            ("len".into(), J::U(bytes.len() as u64)),
            ("deliveries_compared".into(), J::U(pairs)),
            ("input".into(), J::s(show(bytes, 160))),
        ]));
    }
}

/// Wrapper that reports how many injected interrupts actually fired.
struct CountingReader<'a, 'b> {
    inner: ChunkReader<'a>,
    fired: &'b std::cell::Cell<u64>,
}

impl Drop for CountingReader<'_, '_> {
    fn drop(&mut self) {
        self.fired.set(self.fired.get() + self.inner.interrupts_fired);
    }
}

impl std::io::Read for CountingReader<'_, '_> {
    fn read(&mut self, buf: &mut [u8]) -> std::io::Result<usize> {
        self.inner.read(buf)
    }
}

impl std::io::BufRead for CountingReader<'_, '_> {
    fn fill_buf(&mut self) -> std::io::Result<&[u8]> {
        self.inner.fill_buf()
    }
    fn consume(&mut self, amt: usize) {
        self.inner.consume(amt);
    }
}
