//! C06 — a rejected line has no effect on the result.
//!
//! Refuting events: file `f`, line `i` for which the real section parser returned
//! `Err`, and `decode(f) != decode(f without line i)` (deep comparison including
//! curves); or, at the state boundary, an `Err` from `parse_hit_objects` after which
//! the public state (`hit_objects`, `last_object`) differs from before the call.
//! Rejected lines are identified by driving the public parse functions over the
//! dispatch walk and, when the crate's tracing feature is compiled in, cross-checked
//! against the implementation's own event log.

use rosu_map::{
    section::{hit_objects::HitObjects, timing_points::TimingPoints},
    Beatmap, BeatmapState, DecodeBeatmap, DecodeState,
};

use crate::{
    gen::osu::{self, Kind},
    model::framing,
    obs::{cmp, recorder::SECTION_NAMES, trlog},
    util::{fnv64, show, Ctx, Rng, J},
};

const JUNK: &[&str] = &[
    "x", "", "NaN", "1e999", "-", "9001", "131073", "2147483648", "-2147483648", "|", "B|", "1:2:3", "a:b", "0:", "|x:y",
    "|1:1|B|2:2|q", "inf", "1.5.5", "0x1", " ", "１", "256", "-1", "1e", ":", ",",
];

fn corrupt(r: &mut Rng, line: &str, sec: u8) -> String {
    // slider-specific deep corruptions
    if sec == 7 {
        let f: Vec<&str> = line.split(',').collect();
        if f.len() > 6 && f[3].trim().parse::<i32>().is_ok_and(|t| t & 2 != 0 && t & 1 == 0) {
            match r.below(4) {
                0 => {
                    // corrupt the k-th segment of a (made) multi-segment path
                    let x: i64 = f[0].trim().parse::<f64>().map_or(0, |v| v.clamp(-200_000.0, 200_000.0) as i64);
                    let y: i64 = f[1].trim().parse::<f64>().map_or(0, |v| v.clamp(-200_000.0, 200_000.0) as i64);
                    let bad = ["q:1", "1", "NaN:3", "131073:0", "", "7:"][r.below(6)];
                    let nseg = 1 + r.below(3);
                    let mut p = String::from("B");
                    for s in 0..=nseg {
                        let (a, b) = (x + 30 * (s as i64 + 1), y + 20 * (s as i64 + 1));
                        p.push_str(&format!("|{a}:{b}|{}:{}", a + 10, b + 5));
                        if s < nseg {
                            // duplicate point = implicit segment split, or an explicit letter
                            if r.chance(1, 2) {
                                p.push_str(&format!("|{}:{}", a + 10, b + 5));
                            } else {
                                p.push_str(["|L", "|P", "|C", "|B"][r.below(4)]);
                            }
                        }
                    }
                    p.push('|');
                    p.push_str(bad);
                    let mut g = f.clone();
                    g[5] = &p;
                    return g.join(",");
                }
                1 => {
                    // bad bank info after a valid path
                    let mut g: Vec<String> = f.iter().map(|s| s.to_string()).collect();
                    g.truncate(8.min(g.len()));
                    while g.len() < 8 {
                        g.push("100".into());
                    }
                    g.push("1|2".into());
                    g.push(["x:0|0:0", "0:0|q", "1", "0:0|1:x:3"][r.below(4)].into());
                    return g.join(",");
                }
                _ => {}
            }
        }
    }
    let sep = if line.contains(',') { ',' } else { ':' };
    let mut f: Vec<String> = line.split(sep).map(str::to_string).collect();
    let k = r.below(f.len());
    match r.below(5) {
        0 => f[k] = (*r.pick(JUNK)).to_string(),
        1 => f[k].push_str(*r.pick(JUNK)),
        2 => f.truncate(k.max(1)),
        3 => {
            if k + 1 < f.len() {
                f.swap(k, k + 1);
            } else {
                f[k] = (*r.pick(JUNK)).to_string();
            }
        }
        _ => {
            // overflow the field if it is numeric
            if f[k].trim().parse::<f64>().is_ok() {
                f[k] = ["2147483648", "1e40", "-2147483648", "99999999999"][r.below(4)].to_string();
            } else {
                f[k] = (*r.pick(JUNK)).to_string();
            }
        }
    }
    f.join(&sep.to_string())
}

pub fn run(ctx: &mut Ctx) {
    let small = ctx.leg == "miri";
    if let Some(lit) = ctx.literal.clone() {
        one_file(ctx, 0, &String::from_utf8_lossy(&lit), small);
        return;
    }
    let n = ctx.n(40_000, 1_000_000);
    // Miri leg: inputs generated natively, executed under the interpreter
    if small {
        let inputs: Vec<Vec<u8>> = match ctx.read_inputs() {
            Some(v) => v,
            None => (0..n).map(|i| gen_file(&mut ctx.rng_for(0, i), true).into_bytes()).collect(),
        };
        if ctx.emit_inputs(&inputs) {
            return;
        }
        for (i, b) in inputs.iter().enumerate() {
            one_file(ctx, i as u64, &String::from_utf8_lossy(b), true);
            if ctx.out_of_time() {
                break;
            }
        }
        return;
    }
    for i in 0..n {
        if ctx.only.is_some_and(|k| k != i) {
            continue;
        }
        let mut r = ctx.rng_for(0, i);
        let text = gen_file(&mut r, false);
        one_file(ctx, i, &text, false);
        if ctx.out_of_time() {
            break;
        }
    }
}

fn gen_file(r: &mut Rng, small: bool) -> String {
    let cfg = osu::Cfg {
        hostile: [0u8, 0, 1][r.below(3)],
        chrono: r.chance(2, 3),
        scramble: r.chance(1, 5),
        max_objects: if small { 3 } else { 8 },
        max_tp: if small { 2 } else { 6 },
        all_keys: !small,
        ..osu::Cfg::default()
    };
    let mut g = osu::gen_map(r, &cfg);
    // corrupt 1-5 records, each optionally followed by an observer that would see residue
    let k = 1 + r.below(5);
    for _ in 0..k {
        let recs: Vec<usize> = g.lines.iter().enumerate().filter(|(_, l)| l.kind == Kind::Record && l.sec <= 7).map(|(i, _)| i).collect();
        if recs.is_empty() {
            break;
        }
        // bias towards hit objects and timing points (stateful parsers)
        let pick = {
            let stateful: Vec<usize> = recs.iter().copied().filter(|&i| matches!(g.lines[i].sec, 5 | 7)).collect();
            if !stateful.is_empty() && r.chance(1, 2) {
                stateful[r.below(stateful.len())]
            } else {
                recs[r.below(recs.len())]
            }
        };
        let original = g.lines[pick].clone();
        g.lines[pick].text = corrupt(r, &original.text, original.sec);
        let mut pick = pick;
        if r.chance(1, 3) {
            // the rejected record is a *repetition* of an accepted one: nothing the accepted line did may be undone
            g.lines.insert(pick, original.clone());
            pick += 1;
        }
        let mut at = pick + 1;
        if r.chance(2, 3) {
            // observer 1: the original valid record right after the corrupted one
            g.lines.insert(at, original.clone());
            at += 1;
        }
        if original.sec == 7 && r.chance(2, 3) {
            // observer 2: a plain slider, and a circle that would see a wrong last-object marker
            let t = original.text.split(',').nth(2).unwrap_or("0").to_string();
            for text in [format!("100,100,{t},2,0,B|150:150|200:100,1,80"), format!("50,50,{t},1,0")] {
                g.lines.insert(at, osu::GLine { sec: 7, kind: Kind::Record, text });
                at += 1;
            }
        }
    }
    g.text()
}

fn one_file(ctx: &mut Ctx, index: u64, text: &str, light: bool) {
    let bytes = text.as_bytes();
    ctx.progress(0, index, bytes);
    let mut rejected_here = 0u64;
    ctx.case(index, bytes, |ctx| {
        let lines: Vec<String> = framing::lines(bytes);
        let raw_lines: Vec<&str> = text.split_inclusive('\n').collect();
        if raw_lines.len() != lines.len() {
            ctx.inconclusive(format!("line bookkeeping mismatch ({} vs {})", raw_lines.len(), lines.len()));
            return;
        }
        let Ok(m0) = rosu_map::from_bytes::<Beatmap>(bytes) else {
            ctx.violation("err_from_memory", "decode failed".into(), index, bytes);
            return;
        };
        let log = trlog::take();
        let f0 = cmp::full(&m0);

        // identify rejected lines by driving the public parse functions over the dispatch walk
        let version = framing::model(bytes).version;
        let mut st = BeatmapState::create(version);
        let mut rejected: Vec<(usize, u8, String)> = Vec::new();
        for (i, sec) in framing::dispatched_indices(&lines) {
            let l = &lines[i];
            let before = (st.hit_objects.hit_objects.len(), st.hit_objects.last_object);
            let res = match sec {
                0 => Beatmap::parse_general(&mut st, l),
                1 => Beatmap::parse_editor(&mut st, l),
                2 => Beatmap::parse_metadata(&mut st, l),
                3 => Beatmap::parse_difficulty(&mut st, l),
                4 => Beatmap::parse_events(&mut st, l),
                5 => Beatmap::parse_timing_points(&mut st, l),
                6 => Beatmap::parse_colors(&mut st, l),
                7 => Beatmap::parse_hit_objects(&mut st, l),
                _ => Ok(()),
            };
            if let Err(e) = res {
                rejected.push((i, sec, format!("{e:?}")));
                // state-boundary oracle: nothing observable moved
                let after = (st.hit_objects.hit_objects.len(), st.hit_objects.last_object);
                ctx.count("state_boundary_checks");
                if before != after {
                    ctx.violation(
                        "state_changed_by_rejected_line",
                        format!("parse_{} returned Err for {l:?} but the public state moved: (objects, last_object) {before:?} -> {after:?}", SECTION_NAMES[sec as usize].to_lowercase()),
                        index,
                        bytes,
                    );
                }
            } else {
                ctx.count(&format!("accepted_{}", SECTION_NAMES[sec as usize]));
            }
        }
        // cross-check with the implementation's own event log
        if trlog::ENABLED {
            let ev = trlog::rejected_lines(&log);
            ctx.add("event_log_rejections", ev.len() as u64);
            let mine: Vec<&str> = rejected.iter().map(|(i, _, _)| lines[*i].as_str()).collect();
            let theirs: Vec<&str> = ev.iter().map(|(l, _)| l.as_str()).collect();
            if mine != theirs {
                ctx.violation(
                    "event_log_disagrees",
                    format!("rejected lines per public parse functions {mine:?} vs the decoder's event log {theirs:?}"),
                    index,
                    bytes,
                );
                return;
            }
        }
        // the differential: remove each rejected line
        for (i, sec, err) in &rejected {
            rejected_here += 1;
            ctx.count(&format!("rejected_{}", SECTION_NAMES[*sec as usize]));
            let without: String = raw_lines.iter().enumerate().filter(|(k, _)| k != i).map(|(_, l)| *l).collect();
            let Ok(m1) = rosu_map::from_bytes::<Beatmap>(without.as_bytes()) else {
                ctx.violation("err_from_memory", "decode of the reduced file failed".into(), index, bytes);
                continue;
            };
            let _ = trlog::take();
            if cmp::full(&m1) != f0 {
                let what = first_difference(&m0, &m1);
                ctx.violation(
                    "rejected_line_has_effect",
                    format!("line {} {:?} was rejected ({err}) yet removing it changes the result: {what}", i + 1, lines[*i]),
                    index,
                    bytes,
                );
                continue;
            }
            if !light {
                // one specialised decoder as well
                let same = if *sec == 5 {
                    format!("{:?}", rosu_map::from_bytes::<TimingPoints>(bytes).ok()) == format!("{:?}", rosu_map::from_bytes::<TimingPoints>(without.as_bytes()).ok())
                } else {
                    format!("{:?}", rosu_map::from_bytes::<HitObjects>(bytes).ok()) == format!("{:?}", rosu_map::from_bytes::<HitObjects>(without.as_bytes()).ok())
                };
                let _ = trlog::take();
                if !same {
                    ctx.violation("rejected_line_has_effect", format!("specialised decoder result changes when rejected line {} {:?} is removed", i + 1, lines[*i]), index, bytes);
                }
            }
        }
    });
    ctx.add("rejected_lines", rejected_here);
    ctx.eval(fnv64(bytes), rejected_here > 0);
    if ctx.want_sample() && rejected_here > 0 && index % 41 == 6 {
        ctx.sample(J::O(vec![("rejected_lines".into(), J::U(rejected_here)), ("file".into(), J::s(show(bytes, 500)))]));
    }
}

fn first_difference(a: &Beatmap, b: &Beatmap) -> String {
    if a.hit_objects.len() != b.hit_objects.len() {
        return format!("{} vs {} hit objects", a.hit_objects.len(), b.hit_objects.len());
    }
    for (i, (x, y)) in a.hit_objects.iter().zip(&b.hit_objects).enumerate() {
        if format!("{x:?}") != format!("{y:?}") {
            let (sx, sy) = (format!("{x:?}"), format!("{y:?}"));
            let p = sx.bytes().zip(sy.bytes()).position(|(c, d)| c != d).unwrap_or(0);
            let s = p.saturating_sub(40);
            return format!("hit object {i} differs: …{} vs …{}", sx.get(s..(s + 160).min(sx.len())).unwrap_or(""), sy.get(s..(s + 160).min(sy.len())).unwrap_or(""));
        }
    }
    if format!("{:?}", a.control_points) != format!("{:?}", b.control_points) {
        return "control points differ".into();
    }
    "a scalar/colour/event field differs".into()
}
