//! C02 — decode -> encode -> decode returns the same map.
//!
//! Refuting event: a chronologically ordered input `x` with `M1 = decode(x)`,
//! `M2 = decode(encode(M1))` and a difference in any listed field (see
//! `obs::cmp::map_key`; floats by exact rendering; everything the statement excludes
//! is not compared). The same relation is checked once more on `encode(M1)` itself.

use rosu_map::{section::general::GameMode, Beatmap};

use crate::{
    gen::{self, osu, Corpus},
    obs::cmp::{self, MapKey},
    prop::common::{encode_cost, is_chronological, mode_name, ENCODE_COST_LIMIT},
    util::{fnv64, show, Ctx, Rng, J},
};

pub fn gen_input(r: &mut Rng, corpus: &Corpus) -> (Vec<u8>, &'static str) {
    match r.below(10) {
        0..=4 => {
            let cfg = osu::Cfg {
                hostile: 1,
                chrono: true,
                scramble: r.chance(1, 5),
                near_object_points: r.chance(1, 3),
                all_keys: r.chance(3, 4),
                near_times: r.chance(1, 5),
                ..osu::Cfg::default()
            };
            (osu::gen_map(r, &cfg).text().into_bytes(), "grammar-accepted")
        }
        5 => {
            let cfg = osu::Cfg {
                hostile: 0,
                chrono: true,
                max_objects: 25,
                max_tp: 15,
                ..osu::Cfg::default()
            };
            (osu::gen_map(r, &cfg).text().into_bytes(), "grammar-clean")
        }
        6 => {
            let cfg = osu::Cfg {
                hostile: 2,
                chrono: true,
                scramble: r.chance(1, 3),
                ..osu::Cfg::default()
            };
            (osu::gen_map(r, &cfg).text().into_bytes(), "grammar-hostile")
        }
        7 if !corpus.files.is_empty() => {
            let f = &corpus.files[r.below(corpus.files.len())].1;
            (Corpus::window(r, f, 24 * 1024), "bundled")
        }
        _ if !corpus.files.is_empty() => {
            let a = &corpus.files[r.below(corpus.files.len())].1;
            let b = &corpus.files[r.below(corpus.files.len())].1;
            let a = Corpus::window(r, a, 12 * 1024);
            (gen::mutate(r, &a, b), "bundled-mutant")
        }
        _ => {
            let cfg = osu::Cfg::default();
            (osu::gen_map(r, &cfg).text().into_bytes(), "grammar-clean")
        }
    }
}

pub fn run(ctx: &mut Ctx) {
    let corpus = Corpus::load(&ctx.repo);
    if corpus.files.is_empty() {
        ctx.inconclusive(format!("no bundled maps found under {}/resources", ctx.repo));
    }
    if let Some(lit) = ctx.literal.clone() {
        one_case(ctx, 0, &lit, "literal");
        return;
    }
    if ctx.only.is_none() {
        for (i, (_, bytes)) in corpus.files.iter().enumerate() {
            if (i as u64) % ctx.nshards == ctx.shard {
                one_case(ctx, 1 << 56 | i as u64, bytes, "bundled-whole");
            }
        }
    }
    let n = ctx.n(48_000, 2_000_000);
    for i in 0..n {
        if ctx.only.is_some_and(|k| k != i) {
            continue;
        }
        let mut r = ctx.rng_for(0, i);
        let (bytes, class) = gen_input(&mut r, &corpus);
        one_case(ctx, i, &bytes, class);
        if ctx.out_of_time() {
            break;
        }
    }
}

pub struct RoundTrip {
    pub m1: Beatmap,
    pub m2: Beatmap,
    pub k1: MapKey,
    pub k2: MapKey,
    pub encoded: String,
}

/// decode, encode, decode again and build the comparison keys over common probe instants
pub fn round_trip(ctx: &mut Ctx, index: u64, bytes: &[u8], mut m1: Beatmap) -> Option<RoundTrip> {
    if encode_cost(&mut m1) > ENCODE_COST_LIMIT {
        ctx.count("skipped_resource_bound");
        return None;
    }
    let encoded = match m1.encode_to_string() {
        Ok(s) => s,
        Err(e) => {
            ctx.violation("encode_err_in_memory", format!("encode_to_string failed: {e:?}"), index, bytes);
            return None;
        }
    };
    // the encoding that is read back may have gone through any sink: for a sample of the maps the text
    // comes from a writer that accepts a few bytes per call
    let encoded = if index % 5 == 2 {
        use crate::obs::io::{FaultWriter, WriteFault};
        let mut w = FaultWriter::new(WriteFault::None, usize::MAX);
        w.short = vec![[1usize, 3, 8][(index as usize / 5) % 3]];
        ctx.count("round_trips_through_a_short_writing_sink");
        match m1.encode(&mut w) {
            Ok(()) => match String::from_utf8(w.out) {
                Ok(s) => s,
                Err(_) => {
                    ctx.violation("encode_not_utf8", "the text received by a short-writing sink is not UTF-8".into(), index, bytes);
                    return None;
                }
            },
            Err(e) => {
                ctx.violation("encode_err_in_memory", format!("encode into a short-writing in-memory sink failed: {e:?}"), index, bytes);
                return None;
            }
        }
    } else {
        encoded
    };
    let mut m2 = match rosu_map::from_str::<Beatmap>(&encoded) {
        Ok(m) => m,
        Err(e) => {
            ctx.violation("err_from_memory", format!("decoding the encoding failed: {e:?}"), index, bytes);
            return None;
        }
    };
    let mut times = cmp::control_point_times(&m1.control_points);
    times.extend(cmp::control_point_times(&m2.control_points));
    times.extend(cmp::object_times(&mut m1));
    times.extend(cmp::object_times(&mut m2));
    let probes = cmp::probe_times(times);
    let k1 = cmp::map_key(&mut m1, &probes);
    let k2 = cmp::map_key(&mut m2, &probes);
    Some(RoundTrip { m1, m2, k1, k2, encoded })
}

/// Report the differences of a round trip, separating the listed findings D11 / D13.
pub fn judge(ctx: &mut Ctx, index: u64, bytes: &[u8], rt: &RoundTrip, what: &str) -> bool {
    let mut diffs = cmp::diff_keys(&rt.k1, &rt.k2);
    if diffs.is_empty() {
        return true;
    }
    let (mut k1_eff, mut k2_eff) = (rt.k1.clone(), rt.k2.clone());
    // D15: a slider without explicit length whose natural length exceeds 131072 is written with
    // that length, which the decoder's limit rejects: exactly those objects are lost
    if rt.k1.objects.len() != rt.k2.objects.len() && rt.k1.objects.iter().any(|o| o.d15) {
        let mut k1 = rt.k1.clone();
        let mut k2 = rt.k2.clone();
        // the object that followed a lost slider may now directly follow a spinner (forced new combo):
        // mask the combo flag of the successors of lost objects
        let mut successors = Vec::new();
        let mut kept = 0usize;
        let mut prev_lost = false;
        for o in &rt.k1.objects {
            if o.d15 {
                prev_lost = true;
            } else {
                if prev_lost {
                    successors.push(kept);
                }
                prev_lost = false;
                kept += 1;
            }
        }
        k1.objects.retain(|o| !o.d15);
        for &i in &successors {
            for k in [&mut k1, &mut k2] {
                if let Some(o) = k.objects.get_mut(i) {
                    o.head = o.head.replace(" nc true", " nc *").replace(" nc false", " nc *");
                }
            }
        }
        if k1.objects.len() == k2.objects.len() {
            // exactly the classified objects are missing: continue the comparison without them
            ctx.known("D15-natural-length-beyond-131072", "a slider without explicit length whose natural length exceeds 131072 px is written with that length; the decoder rejects the line and the object is lost".into());
            diffs = cmp::diff_keys(&k1, &k2);
            if diffs.is_empty() {
                return true;
            }
            k1_eff = k1;
            k2_eff = k2;
        }
    }
    // D16: a file name in which path standardisation produced "//" is cut at the comment marker on read-back
    {
        let has = |m: &Beatmap| (m.audio_file.contains("//"), m.background_file.contains("//"));
        let (a, b) = has(&rt.m1);
        let before = diffs.len();
        diffs.retain(|d| !((a && d == "scalar:audio_file") || (b && d == "scalar:background_file")));
        if diffs.len() != before {
            ctx.known("D16-file-name-containing-double-slash", "a decoded file name that contains \"//\" (from doubled backslashes) is written verbatim and truncated at the comment marker when read back".into());
        }
        if diffs.is_empty() {
            return true;
        }
    }
    // D14: mode-dependent parsing uses the mode known when the line is read; a [TimingPoints] or
    // [HitObjects] line that precedes the Mode line is parsed as osu!standard, the re-encoded file
    // (canonical section order) is not
    if mode_set_after_dependent_lines(bytes) {
        let before = diffs.len();
        diffs.retain(|d| !(d == "timeline:scroll_speed" || (d.starts_with("object[") && d.ends_with("]:curve"))));
        if diffs.len() != before {
            ctx.known("D14-mode-line-after-timing-or-object-lines", "timing-point / hit-object lines that precede the Mode line are parsed with the default mode (scroll speed not set, Catmull paths simplified); the canonical encoding puts Mode first".into());
        }
        if diffs.is_empty() {
            return true;
        }
    }
    // D11: taiko/mania scroll speed below 0.1 is re-encoded through the slider-velocity clamp
    let scrolling = matches!(rt.m1.mode, GameMode::Taiko | GameMode::Mania);
    let low_scroll = rt.m1.control_points.effect_points.iter().any(|p| p.scroll_speed < 0.1);
    if scrolling && low_scroll && rt.k1.timeline_scroll_floor == rt.k2.timeline_scroll_floor {
        let before = diffs.len();
        diffs.retain(|d| d != "timeline:scroll_speed");
        if diffs.len() != before {
            ctx.known("D11-scroll-speed-below-0.1", "taiko/mania scroll speed below 0.1 comes back as 0.1 (written through the slider-velocity clamp)".into());
        }
    }
    // D21: the encoder writes slider nodes with their banks only; a custom sample file given in the per-node field is dropped
    {
        let before = diffs.len();
        diffs.retain(|d| {
            if let Some(rest) = d.strip_prefix("object[") {
                if let Some((i, field)) = rest.split_once("]:") {
                    if let Ok(i) = i.parse::<usize>() {
                        return !(field == "samples" && k1_eff.objects.get(i).is_some_and(|o| o.d21));
                    }
                }
            }
            true
        });
        if diffs.len() != before {
            ctx.known("D21-node-sample-file-name-not-encoded", "a custom sample file name given in a slider's per-node bank field is accepted by the decoder but never written by the encoder (nodes are written with banks only)".into());
        }
        if diffs.is_empty() {
            return true;
        }
    }
    // D20: a sample file name ending in whitespace is written at the end of the line, where the reader's
    // trailing trim removes the whitespace
    {
        let before = diffs.len();
        diffs.retain(|d| {
            if let Some(rest) = d.strip_prefix("object[") {
                if let Some((i, field)) = rest.split_once("]:") {
                    if let Ok(i) = i.parse::<usize>() {
                        return !(field == "samples" && k1_eff.objects.get(i).is_some_and(|o| o.d20));
                    }
                }
            }
            true
        });
        if diffs.len() != before {
            ctx.known("D20-sample-file-name-ending-in-whitespace", "a sample file name that ends in whitespace (reachable only when further ':' parts follow it in the input) is written last on its line and loses the whitespace to the reader's trailing trim".into());
        }
        if diffs.is_empty() {
            return true;
        }
    }
    // D13: Catmull path whose second control point equals the slider position loses that point
    let mut d13_hit = false;
    diffs.retain(|d| {
        if let Some(rest) = d.strip_prefix("object[") {
            if let Some((i, field)) = rest.split_once("]:") {
                if let Ok(i) = i.parse::<usize>() {
                    if k1_eff.objects.get(i).is_some_and(|o| o.d13) && (field == "control_points" || field == "curve") {
                        d13_hit = true;
                        return false;
                    }
                }
            }
        }
        true
    });
    if d13_hit {
        ctx.known("D13-catmull-point-at-slider-position", "Catmull path whose second control point equals the slider position loses that point on every encode/decode".into());
    }
    if diffs.is_empty() {
        return true;
    }
    let mut detail = format!("{what}: {} listed fields differ: {:?}", diffs.len(), &diffs[..diffs.len().min(8)]);
    detail.push_str(&explain(&k1_eff, &k2_eff, &diffs[0]));
    ctx.violation("roundtrip_mismatch", detail, index, bytes);
    false
}

/// D14 classifier, decided on the line dispatch trace of the input.
pub fn mode_set_after_dependent_lines(bytes: &[u8]) -> bool {
    let Ok(t) = rosu_map::from_bytes::<crate::obs::recorder::Trace>(bytes) else { return false };
    let mut dependent_seen = false;
    for (sec, line) in &t.calls {
        match sec {
            5 | 7 => dependent_seen = true,
            0 if dependent_seen => {
                let l = line.find("//").map_or(line.as_str(), |i| &line[..i]);
                if l.split(':').next().is_some_and(|k| k.trim() == "Mode") {
                    return true;
                }
            }
            _ => {}
        }
    }
    false
}

fn clip(s: &str) -> &str {
    let mut n = s.len().min(700);
    while !s.is_char_boundary(n) {
        n -= 1;
    }
    &s[..n]
}

fn first_diff<'a>(a: &'a str, b: &'a str) -> (&'a str, &'a str) {
    let p = a.bytes().zip(b.bytes()).position(|(x, y)| x != y).unwrap_or(a.len().min(b.len()));
    let mut s = p.saturating_sub(60);
    while !a.is_char_boundary(s) || !b.is_char_boundary(s) {
        s -= 1;
    }
    (clip(&a[s..]), clip(&b[s..]))
}

pub fn explain(k1: &MapKey, k2: &MapKey, d: &str) -> String {
    if let Some(name) = d.strip_prefix("scalar:") {
        let a = k1.scalars.iter().find(|(k, _)| *k == name).map(|x| x.1.as_str()).unwrap_or("");
        let b = k2.scalars.iter().find(|(k, _)| *k == name).map(|x| x.1.as_str()).unwrap_or("");
        return format!("\n  before: {}\n  after:  {}", clip(a), clip(b));
    }
    let pair = match d {
        "timing_points" => Some((&k1.timing_points, &k2.timing_points)),
        "timeline:slider_velocity" => Some((&k1.timeline_sv, &k2.timeline_sv)),
        "timeline:kiai" => Some((&k1.timeline_kiai, &k2.timeline_kiai)),
        "timeline:scroll_speed" => Some((&k1.timeline_scroll, &k2.timeline_scroll)),
        _ => None,
    };
    if let Some((a, b)) = pair {
        let (x, y) = first_diff(a, b);
        return format!("\n  before: …{x}\n  after:  …{y}");
    }
    if let Some(rest) = d.strip_prefix("object[") {
        if let Some((i, field)) = rest.split_once("]:") {
            if let Ok(i) = i.parse::<usize>() {
                if let (Some(a), Some(b)) = (k1.objects.get(i), k2.objects.get(i)) {
                    let (x, y) = match field {
                        "head" => (&a.head, &b.head),
                        "samples" => (&a.samples, &b.samples),
                        "control_points" => (&a.cps, &b.cps),
                        _ => (&a.curve, &b.curve),
                    };
                    let (x, y) = first_diff(x, y);
                    return format!("\n  object {i} head: {}\n  before: …{x}\n  after:  …{y}", clip(&a.head));
                }
            }
        }
    }
    String::new()
}

fn one_case(ctx: &mut Ctx, index: u64, bytes: &[u8], class: &str) {
    ctx.progress(0, index, bytes);
    let mut nontrivial = false;
    ctx.case(index, bytes, |ctx| {
        if !is_chronological(bytes) {
            ctx.count("skipped_not_chronological");
            return;
        }
        let Ok(m1) = rosu_map::from_bytes::<Beatmap>(bytes) else {
            ctx.violation("err_from_memory", "decode failed".into(), index, bytes);
            return;
        };
        ctx.count(&format!("class_{class}"));
        ctx.count(&format!("mode_{}", mode_name(m1.mode)));
        nontrivial = !m1.hit_objects.is_empty() || !m1.control_points.timing_points.is_empty();
        let Some(rt) = round_trip(ctx, index, bytes, m1) else { return };
        ctx.count("round_trips");
        ctx.add("objects_compared", rt.k1.objects.len() as u64);
        ctx.add("sliders_compared", rt.k1.objects.iter().filter(|o| !o.cps.is_empty()).count() as u64);
        ctx.add("excluded_consecutive_catmull", rt.k1.objects.iter().filter(|o| o.excluded_catmull).count() as u64);
        ctx.add("timing_points_compared", rt.m1.control_points.timing_points.len() as u64);
        if rt.m1.beatmap_id > 0 {
            ctx.count("positive_ids");
        }
        if !judge(ctx, index, bytes, &rt, "decode(encode(decode(x))) vs decode(x)") {
            return;
        }
        // second generation: encode(M1) is itself a chronological input
        let enc_bytes = rt.encoded.as_bytes();
        if let Some(rt2) = round_trip(ctx, index, enc_bytes, rt.m2.clone()) {
            ctx.count("second_generation_round_trips");
            judge(ctx, index, enc_bytes, &rt2, "second generation (input = an encoding)");
        }
    });
    ctx.eval(fnv64(bytes), nontrivial);
    if ctx.want_sample() && nontrivial && index % 29 == 3 {
        ctx.sample(J::O(vec![("class".into(), J::s(class)), ("input".into(), J::s(show(bytes, 400)))]));
    }
}
