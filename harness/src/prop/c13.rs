//! C13 — control-point collections stay ordered and lookups return the active point.
//!
//! Refuting events: a history of `ControlPoints::add` calls after which a list is
//! not strictly ordered by time / holds two points at one time / stored a point that
//! repeated the point active at its time when it was added / differs from the
//! linear-scan reference; a lookup that differs from "latest point with time <= t,
//! else first (timing, sample) / none (difficulty, effect)".

use rosu_map::section::{
    hit_objects::hit_samples::SampleBank,
    timing_points::{ControlPoints, DifficultyPoint, EffectPoint, SamplePoint, TimeSignature, TimingPoint},
};

use crate::{
    model::timing::{self, CP, D, E, S, T},
    util::{mix64, Ctx, Rng, J},
};

#[derive(Clone, Copy, Debug)]
struct Op {
    kind: u8,
    time: f64,
    val: u8,
}

fn apply(real: &mut ControlPoints, model: &mut CP, op: Op) {
    let t = op.time;
    match op.kind {
        0 => {
            let (bl, omit, sig) = if op.val == 0 { (500.0, false, 4) } else { (250.0, true, 3) };
            real.add(TimingPoint::new(t, bl, omit, TimeSignature::new(sig).unwrap()));
            model.add_t(T { time: t, bl, omit, sig: sig as u32 });
        }
        1 => {
            // val 0 repeats the default (sv 1, ticks on), val 1 differs, val 2 = ticks off, val 3 = tiny change below EPSILON
            let (bl, sm) = match op.val {
                0 => (-100.0, 1.0),
                1 => (-50.0, 2.0),
                2 => (f64::NAN, 1.0),
                _ => (-100.0, 1.0 + 1e-17),
            };
            real.add(DifficultyPoint::new(t, bl, sm));
            model.add_d(D { time: t, sv: sm.clamp(0.1, 10.0), ticks: !bl.is_nan() });
        }
        2 => {
            let (kiai, scroll) = match op.val {
                0 => (false, 1.0),
                1 => (true, 1.0),
                2 => (false, 0.5),
                _ => (true, 2.0),
            };
            let mut p = EffectPoint::new(t, kiai);
            p.scroll_speed = scroll;
            real.add(p);
            model.add_e(E { time: t, kiai, scroll });
        }
        _ => {
            let (bank, vol, custom) = match op.val {
                0 => (SampleBank::Normal, 100, 0),
                1 => (SampleBank::Soft, 50, 2),
                2 => (SampleBank::Normal, 100, 1),
                3 => (SampleBank::Drum, 100, 0),
                // silent points: a volume of 0 is a value like any other
                4 => (SampleBank::Normal, 0, 0),
                _ => (SampleBank::Soft, 0, 2),
            };
            real.add(SamplePoint::new(t, bank, vol, custom));
            model.add_s(S { time: t, bank: timing::bank_u8(bank), vol, custom });
        }
    }
}

fn probe_times(m: &CP) -> Vec<f64> {
    let mut ts: Vec<f64> = Vec::new();
    ts.extend(m.t.iter().map(|p| p.time));
    ts.extend(m.d.iter().map(|p| p.time));
    ts.extend(m.e.iter().map(|p| p.time));
    ts.extend(m.s.iter().map(|p| p.time));
    ts.sort_by(|a, b| a.partial_cmp(b).unwrap());
    ts.dedup();
    let mut out = Vec::with_capacity(ts.len() * 2 + 4);
    if let (Some(f), Some(l)) = (ts.first().copied(), ts.last().copied()) {
        out.extend_from_slice(&[f - 1.0, f - 1e-9, l + 1e-9, l + 1.0, 0.0, -0.0]);
    }
    for w in ts.windows(2) {
        out.push((w[0] + w[1]) / 2.0);
    }
    out.extend(ts);
    out
}

/// all lists equal to the model and every lookup equal to the linear scan; returns an error text
fn compare(real: &ControlPoints, model: &CP, stride: usize) -> Result<u64, String> {
    timing_strict(real)?;
    let got = timing::project(real);
    if !timing::same(model, &got) {
        return Err(format!("lists differ from the linear-scan reference\n real:  {got:?}\n model: {model:?}"));
    }
    let mut lookups = 0;
    for t in probe_times(model).into_iter().step_by(stride.max(1)) {
        lookups += 4;
        let rt = real.timing_point_at(t).map(|p| (p.time, p.beat_len));
        let mt = model.t_at(t).map(|p| (p.time, p.bl));
        if rt != mt {
            return Err(format!("timing_point_at({t:?}) = {rt:?}, reference {mt:?}"));
        }
        let rs = real.sample_point_at(t).map(|p| (p.time, timing::bank_u8(p.sample_bank), p.sample_volume, p.custom_sample_bank));
        let ms = model.s_at(t).map(|p| (p.time, p.bank, p.vol, p.custom));
        if rs != ms {
            return Err(format!("sample_point_at({t:?}) = {rs:?}, reference {ms:?}"));
        }
        let rd = real.difficulty_point_at(t).map(|p| (p.time, p.slider_velocity, p.generate_ticks));
        let md = model.d_at(t).map(|p| (p.time, p.sv, p.ticks));
        if rd != md {
            return Err(format!("difficulty_point_at({t:?}) = {rd:?}, reference {md:?}"));
        }
        let re = real.effect_point_at(t).map(|p| (p.time, p.kiai, p.scroll_speed));
        let me = model.e_at(t).map(|p| (p.time, p.kiai, p.scroll));
        if re != me {
            return Err(format!("effect_point_at({t:?}) = {re:?}, reference {me:?}"));
        }
    }
    Ok(lookups)
}

fn timing_strict(r: &ControlPoints) -> Result<(), String> {
    let strict = |ts: Vec<f64>, what: &str| -> Result<(), String> {
        for w in ts.windows(2) {
            if !(w[0] < w[1]) {
                return Err(format!("{what} list not strictly increasing: {:?} then {:?}", w[0], w[1]));
            }
        }
        Ok(())
    };
    strict(r.timing_points.iter().map(|p| p.time).collect(), "timing")?;
    strict(r.difficulty_points.iter().map(|p| p.time).collect(), "difficulty")?;
    strict(r.effect_points.iter().map(|p| p.time).collect(), "effect")?;
    strict(r.sample_points.iter().map(|p| p.time).collect(), "sample")
}

fn describe(h: &[Op]) -> String {
    h.iter()
        .map(|o| format!("{}@{:?}#{}", ["timing", "difficulty", "effect", "sample"][o.kind as usize], o.time, o.val))
        .collect::<Vec<_>>()
        .join(" ")
}

fn run_history(ctx: &mut Ctx, index: u64, h: &[Op]) {
    let witness = describe(h);
    let mut ok_ops = 0u64;
    ctx.case(index, witness.as_bytes(), |ctx| {
        let mut real = ControlPoints::default();
        let mut model = CP::default();
        for (k, op) in h.iter().enumerate() {
            apply(&mut real, &mut model, *op);
            // short histories: every probe; long ones: a rotating subset of probes per operation
            let stride = if h.len() <= 8 { 1 } else { 1 + (k % 7) };
            match compare(&real, &model, stride) {
                Ok(n) => {
                    ctx.add("lookups_checked", n);
                    ok_ops += 1;
                }
                Err(why) => {
                    ctx.violation("collection_mismatch", format!("after operation {} of [{witness}]: {why}", k + 1), index, witness.as_bytes());
                    return;
                }
            }
        }
    });
    ctx.add("operations_checked", ok_ops);
    let mut d = 0x1234u64;
    for o in h {
        d = mix64(d ^ (u64::from(o.kind) << 40) ^ o.time.to_bits() ^ (u64::from(o.val) << 56));
    }
    ctx.eval(d, h.len() >= 2);
    if ctx.want_sample() && h.len() >= 3 && index % 53 == 8 {
        ctx.sample(J::O(vec![("history".into(), J::s(witness))]));
    }
}

pub fn run(ctx: &mut Ctx) {
    // alphabet: 4 kinds x times {-1,0,1,2} x 2 values
    let mut alpha: Vec<Op> = Vec::new();
    for kind in 0..4u8 {
        for time in [-1.0, 0.0, 1.0, 2.0] {
            for val in 0..2u8 {
                alpha.push(Op { kind, time, val });
            }
        }
    }
    let n = alpha.len() as u64;
    let max_len: u32 = if ctx.quick() { 4 } else { 5 };
    let mut complete = true;
    let mut idx = 0u64;
    let mut h: Vec<Op> = Vec::new();
    'outer: for len in 1..=max_len {
        let total = n.pow(len);
        let mut code = ctx.shard;
        while code < total {
            idx += 1;
            if ctx.only.is_none() || ctx.only == Some(u64::from(len) << 48 | code) {
                let mut c = code;
                h.clear();
                for _ in 0..len {
                    h.push(alpha[(c % n) as usize]);
                    c /= n;
                }
                run_history(ctx, u64::from(len) << 48 | code, &h);
            }
            code += ctx.nshards;
            if idx % 65536 == 0 && ctx.out_of_time() {
                complete = false;
                break 'outer;
            }
        }
    }
    ctx.report.exhaustive = Some(complete && ctx.only.is_none());
    ctx.note(format!("exhaustive part: all histories of length <= {max_len} over 32 add operations (4 kinds x times {{-1,0,1,2}} x 2 values), every list and every lookup checked after every operation"));
    if ctx.only.is_some() {
        return;
    }
    // random long histories
    let m = ctx.n(20_000, 1_000_000);
    for i in 0..m {
        let mut r = ctx.rng_for(0, i);
        let len = 10 + r.below(191);
        let pool: Vec<f64> = (0..2 + r.below(12)).map(|_| random_time(&mut r)).collect();
        let h: Vec<Op> = (0..len)
            .map(|_| Op { kind: r.below(4) as u8, time: if r.chance(3, 4) { *r.pick(&pool) } else { random_time(&mut r) }, val: r.below(6) as u8 })
            .collect();
        run_history(ctx, 1 << 60 | i, &h);
        if ctx.out_of_time() {
            break;
        }
    }
}

fn random_time(r: &mut Rng) -> f64 {
    match r.below(9) {
        // distinct times closer than any tolerance (they exist only below magnitude 1): still different times
        8 => *r.pick(&[0.3, 0.1 + 0.2, 5e-324, 1e-17, f64::MIN_POSITIVE, 0.5, 0.500_000_000_000_000_1, -1e-300, 0.299_999_999_999_999_93]),
        0 => 0.0,
        1 => -0.0,
        2 => r.range(-5, 5) as f64,
        3 => r.range(-100000, 100000) as f64 / 8.0,
        4 => (r.f() - 0.5) * 1e6,
        5 => f64::from(r.range(-3, 3) as i32) + 1e-13,
        6 => r.range(-5, 5) as f64 + 0.5,
        _ => r.f() * 100.0,
    }
}
