//! C15 — map-level processing of hit objects: order, combos, velocity, sample defaults.
//!
//! Refuting events: objects out of start-time order or equal-time objects reordered;
//! the first object after a break without new combo (or a forced combo elsewhere);
//! slider velocity / duration differing from the closed form (relative 1e-12); a
//! sample whose defaulted volume/bank/custom index is not that of the sample point
//! active 5 ms after the object end / node; a whole-millisecond time shift changing
//! anything but times.

use rosu_map::{
    section::{
        general::GameMode,
        hit_objects::{
            hit_samples::{HitSampleInfo, HitSampleInfoName, SampleBank},
            HitObject, HitObjectKind, HitObjects,
        },
        timing_points::{ControlPoints, SamplePoint},
    },
    Beatmap, DecodeBeatmap, DecodeState,
};

use crate::{
    gen::osu,
    model::{framing, sections, timing},
    obs::recorder::Trace,
    util::{fnv64, show, Ctx, Rng, J},
};

fn gen_text(r: &Rng, shift: i64) -> String {
    let mut r = r.clone();
    let cfg = osu::Cfg {
        hostile: [0u8, 0, 1][r.below(3)],
        chrono: r.chance(1, 2),
        int_times: true,
        shift,
        near_object_points: true,
        scramble: false,
        // occasionally long maps: sorting behaviour changes with the number of objects
        max_objects: if r.chance(1, 6) { 45 } else { 12 },
        max_tp: 8,
        all_keys: r.chance(1, 2),
        ..osu::Cfg::default()
    };
    osu::gen_map(&mut r, &cfg).text()
}

pub fn run(ctx: &mut Ctx) {
    if let Some(lit) = ctx.literal.clone() {
        let text = String::from_utf8_lossy(&lit).into_owned();
        recompute(ctx, 0, &text);
        return;
    }
    let n = ctx.n(30_000, 1_000_000);
    for i in 0..n {
        if ctx.only.is_some_and(|k| k != i) {
            continue;
        }
        let base = ctx.rng_for(0, i);
        let text = gen_text(&base, 0);
        if std::env::var("RVMON_DEBUG").is_ok() {
            eprintln!("BASE TEXT:\n{text}");
        }
        let ambiguous = recompute(ctx, i, &text);
        // metamorphic: shifted variants generated from the same stream
        let mut r = ctx.rng_for(1, i);
        let shifts: Vec<i64> = if ctx.quick() {
            vec![[1, -1, 999, -999][r.below(4)], [1_000_000, -1_000_000][r.below(2)], r.range(-1_000_000, 1_000_000)]
        } else {
            vec![1, -1, 999, -999, 1_000_000, -1_000_000, r.range(-1_000_000, 1_000_000)]
        };
        if ambiguous {
            ctx.count("shift_skipped_ambiguous_lookup");
        } else {
            for s in shifts {
                shifted(ctx, i, &text, &gen_text(&base, s), s);
            }
        }
        if ctx.out_of_time() {
            break;
        }
    }
}

// ---------------------------------------------------------------- (a) recomputation

fn sp_at(cp: &ControlPoints, t: f64) -> SamplePoint {
    let mut r: Option<&SamplePoint> = None;
    for p in &cp.sample_points {
        if p.time <= t {
            r = Some(p);
        }
    }
    r.or(cp.sample_points.first()).cloned().unwrap_or_default()
}

/// what a sample takes from the active sample point
fn defaulted(sp: &SamplePoint, s: &HitSampleInfo) -> HitSampleInfo {
    let mut o = s.clone();
    match s.name {
        HitSampleInfoName::Default(_) => {
            if o.custom_sample_bank == 0 {
                o.custom_sample_bank = sp.custom_sample_bank;
                if o.custom_sample_bank >= 2 {
                    o.suffix = std::num::NonZeroU32::new(o.custom_sample_bank as u32);
                }
            }
            if o.volume == 0 {
                o.volume = sp.sample_volume.clamp(0, 100);
            }
            if !o.bank_specified {
                o.bank = sp.sample_bank;
                o.bank_specified = true;
            }
        }
        HitSampleInfoName::File(_) => {
            o.bank = SampleBank::Normal;
            o.suffix = None;
            if o.volume == 0 {
                o.volume = sp.sample_volume.clamp(0, 100);
            }
            o.custom_sample_bank = 1;
            o.bank_specified = false;
            o.is_layered = false;
        }
    }
    o
}

/// A lookup instant that lies within 1e-6 ms of a sample point. `derived` = the instant comes out of a
/// division (slider node / end times): then even exact equality is a rounding accident that a shifted
/// copy of the map need not reproduce, so it is ambiguous too. Instants built from whole numbers only
/// (object start + 5) compare exactly in every shifted copy.
fn near_but_not_equal(cp: &ControlPoints, t: f64, derived: bool) -> bool {
    cp.sample_points.iter().any(|p| (p.time - t).abs() < 1e-6 && (derived || p.time != t))
}

/// returns true when a lookup instant was numerically ambiguous (metamorphic check is skipped then)
fn recompute(ctx: &mut Ctx, index: u64, text: &str) -> bool {
    let bytes = text.as_bytes();
    let mut ambiguous = false;
    let mut nontrivial = false;
    ctx.case(index, bytes, |ctx| {
        let Ok(full) = rosu_map::from_str::<HitObjects>(text) else {
            ctx.violation("err_from_memory", "decode failed".into(), index, bytes);
            return;
        };
        ctx.count("maps_recomputed");
        // raw objects through the public per-line API, in file order
        let Ok(trace) = rosu_map::from_str::<Trace>(text) else { return };
        let mut st = <HitObjects as DecodeBeatmap>::State::create(trace.version);
        for (sec, l) in &trace.calls {
            let _ = match sec {
                0 => HitObjects::parse_general(&mut st, l),
                3 => HitObjects::parse_difficulty(&mut st, l),
                4 => HitObjects::parse_events(&mut st, l),
                5 => HitObjects::parse_timing_points(&mut st, l),
                7 => HitObjects::parse_hit_objects(&mut st, l),
                _ => Ok(()),
            };
        }
        let mut raw: Vec<(usize, HitObject)> = st.hit_objects.iter().cloned().enumerate().collect();
        nontrivial = raw.len() >= 2;
        // 1. non-decreasing start times, file order kept among equal times
        raw.sort_by(|a, b| a.1.start_time.partial_cmp(&b.1.start_time).unwrap().then(a.0.cmp(&b.0)));
        if raw.len() != full.hit_objects.len() {
            ctx.violation("object_count", format!("{} objects through the per-line API, {} decoded", raw.len(), full.hit_objects.len()), index, bytes);
            return;
        }
        if raw.windows(2).any(|w| w[0].0 > w[1].0) {
            ctx.count("maps_with_unsorted_object_lines");
        }
        if raw.windows(2).any(|w| w[0].1.start_time == w[1].1.start_time) {
            ctx.count("maps_with_equal_start_times");
        }
        let cp = &full.control_points;
        let mode = full.mode;
        // Reference interpretation of the file, independent of the library: framing model -> section
        // model (mode, slider multiplier, sample defaults, breaks) -> legacy model of the timing lines.
        let mtrace = framing::model(bytes);
        let mut exp = sections::R::default();
        let mut aux = sections::Aux::default();
        let mut general_after_timing = false;
        let mut timing_seen = false;
        let mut tlines: Vec<&str> = Vec::new();
        for (sec, line) in &mtrace.calls {
            match *sec {
                5 => {
                    timing_seen = true;
                    tlines.push(line.as_str());
                }
                0 if timing_seen => general_after_timing = true,
                _ => {}
            }
            if *sec != 5 && *sec != 7 {
                sections::apply(&mut exp, &mut aux, *sec, line);
            }
        }
        let (mcp, _) = timing::model(&tlines, exp.mode, exp.bank, exp.vol);
        if general_after_timing {
            // the defaults in force while the timing lines were read are not the final ones
            ctx.count("maps_with_general_lines_after_timing_lines");
        } else {
            ctx.count("control_point_lists_cross_checked");
            let got = timing::project(cp);
            if !timing::same(&mcp, &got) {
                ctx.violation("active_points", format!("control points differ from the legacy model of the file's timing lines\n real:  {got:?}\n model: {mcp:?}"), index, bytes);
                return;
            }
        }
        // 2. the first object after each break starts a new combo (holds carry no combo)
        let mut first_after_break = vec![false; raw.len()];
        for &(_, b_end) in &exp.breaks {
            if let Some(k) = raw.iter().position(|(_, o)| b_end < o.start_time) {
                first_after_break[k] = true;
                ctx.count("breaks_followed_by_an_object");
            }
        }
        for (k, (_, ro)) in raw.iter().enumerate() {
            let fo = &full.hit_objects[k];
            ctx.count("objects_recomputed");
            if fo.start_time.to_bits() != ro.start_time.to_bits() && fo.start_time != ro.start_time {
                ctx.violation("order", format!("object {k}: expected start {:?} (stable sort of file order), decoded {:?}", ro.start_time, fo.start_time), index, bytes);
                return;
            }
            if std::mem::discriminant(&fo.kind) != std::mem::discriminant(&ro.kind) {
                ctx.violation("order", format!("object {k} at {:?}: equal-time objects were reordered (kind differs from file order)", ro.start_time), index, bytes);
                return;
            }
            let raw_nc = match &ro.kind {
                HitObjectKind::Circle(c) => Some(c.new_combo),
                HitObjectKind::Slider(s) => Some(s.new_combo),
                HitObjectKind::Spinner(s) => Some(s.new_combo),
                HitObjectKind::Hold(_) => None,
            };
            let exp_nc = raw_nc.map_or(false, |nc| nc || first_after_break[k]);
            if fo.new_combo() != exp_nc {
                ctx.violation(
                    "break_combo",
                    format!("object {k} at {:?}: new_combo {} but expected {exp_nc} (line says {raw_nc:?}, first object after a break: {})", ro.start_time, fo.new_combo(), first_after_break[k]),
                    index,
                    bytes,
                );
            }
            let mut end = ro.start_time;
            match (&ro.kind, &fo.kind) {
                (HitObjectKind::Slider(rs), HitObjectKind::Slider(fs)) => {
                    ctx.count("sliders_recomputed");
                    // 3. velocity and duration in closed form
                    let at = ro.start_time;
                    let bl = mcp.t_at(at).map_or(1000.0, |p| p.bl);
                    // the multiplier of an inherited line is limited to [0.1, 10] in every mode
                    let sv = mcp.d_at(at).map_or(1.0, |p| p.sv);
                    let sv_eff = sv.clamp(0.1, 10.0);
                    if sv < 0.1 + 1e-9 {
                        ctx.count("sliders_at_the_lower_velocity_limit");
                    }
                    // cross-check of the inputs: the library's own lists must name the same values
                    let bl_lib = cp.timing_points.iter().rev().find(|p| p.time <= ro.start_time).or(cp.timing_points.first()).map_or(1000.0, |p| p.beat_len);
                    let sv_lib = cp.difficulty_points.iter().rev().find(|p| p.time <= ro.start_time).map_or(1.0, |p| p.slider_velocity);
                    if bl_lib != bl || sv_lib != sv {
                        ctx.violation("active_points", format!("slider at {:?}: active beat length / multiplier {bl_lib:?} / {sv_lib:?}, legacy model of the timing lines says {bl:?} / {sv:?}", ro.start_time), index, bytes);
                    }
                    let v = 100.0 * exp.sm * sv_eff / bl;
                    if ((fs.velocity - v) / v).abs() > 1e-12 {
                        ctx.violation("velocity", format!("slider at {:?}: velocity {:?}, closed form {v:?} (SM {}, sv {sv}, beat length {bl})", ro.start_time, fs.velocity, exp.sm), index, bytes);
                    }
                    let dist = rs.path.clone().curve().dist();
                    let spans = f64::from(rs.repeat_count + 1);
                    let dur = spans * dist / fs.velocity;
                    end = ro.start_time + dur;
                    let fdur = fs.clone().duration();
                    if (fdur - dur).abs() > 1e-12 * dur.abs().max(1e-300) {
                        ctx.violation("duration", format!("slider at {:?}: duration {fdur:?}, closed form {dur:?}", ro.start_time), index, bytes);
                    }
                    if rs.node_samples.len() != fs.node_samples.len() {
                        ctx.violation("node_count", format!("slider at {:?}: node sample sets {} vs {}", ro.start_time, rs.node_samples.len(), fs.node_samples.len()), index, bytes);
                        continue;
                    }
                    // 4. node samples: sample point active 5 ms after each node
                    for i in 0..rs.node_samples.len().min(200) {
                        let t = ro.start_time + i as f64 * dur / spans + 5.0;
                        // node 0 is the start itself (whole number + 5); later nodes are derived by division
                        if near_but_not_equal(cp, t, i > 0) {
                            ambiguous = true;
                            ctx.count("ambiguous_lookups");
                            if cp.sample_points.iter().any(|p| p.time != t && (p.time - t).abs() < 1e-6) {
                                continue;
                            }
                        }
                        let sp = sp_at(cp, t);
                        let exp: Vec<HitSampleInfo> = rs.node_samples[i].iter().map(|s| defaulted(&sp, s)).collect();
                        ctx.count("node_sample_sets_recomputed");
                        if exp != fs.node_samples[i] {
                            ctx.violation("node_samples", format!("slider at {:?} node {i} (lookup at {t:?}): expected {exp:?}, decoded {:?}", ro.start_time, fs.node_samples[i]), index, bytes);
                        }
                    }
                }
                (HitObjectKind::Spinner(s), _) => end = ro.start_time + s.duration,
                (HitObjectKind::Hold(h), _) => end = ro.start_time + h.duration,
                _ => {}
            }
            let t = end + 5.0;
            let derived = matches!(ro.kind, HitObjectKind::Slider(_));
            if near_but_not_equal(cp, t, derived) {
                ambiguous = true;
                ctx.count("ambiguous_lookups");
                if cp.sample_points.iter().any(|p| p.time != t && (p.time - t).abs() < 1e-6) {
                    continue;
                }
            }
            if cp.sample_points.iter().any(|p| p.time == t) {
                ctx.count("lookups_exactly_on_a_sample_point");
            }
            let sp = sp_at(cp, t);
            let exp: Vec<HitSampleInfo> = ro.samples.iter().map(|s| defaulted(&sp, s)).collect();
            if exp != fo.samples {
                ctx.violation("samples", format!("object {k} at {:?} (lookup at {t:?}): expected {exp:?}, decoded {:?}", ro.start_time, fo.samples), index, bytes);
            }
        }
    });
    ctx.eval(fnv64(bytes), nontrivial);
    if ctx.want_sample() && nontrivial && index % 61 == 19 {
        ctx.sample(J::O(vec![("map".into(), J::s(show(bytes, 600)))]));
    }
    ambiguous
}

// ---------------------------------------------------------------- (b) time shift

/// render a map with every object / control-point / break time reduced by `s`
fn normalized(m: &Beatmap, s: f64) -> String {
    let mut m = m.clone();
    for h in m.hit_objects.iter_mut() {
        h.start_time -= s;
    }
    for p in m.control_points.timing_points.iter_mut() {
        p.time -= s;
    }
    for p in m.control_points.difficulty_points.iter_mut() {
        p.time -= s;
    }
    for p in m.control_points.effect_points.iter_mut() {
        p.time -= s;
    }
    for p in m.control_points.sample_points.iter_mut() {
        p.time -= s;
    }
    for b in m.breaks.iter_mut() {
        b.start_time -= s;
        b.end_time -= s;
    }
    // -0.0 and 0.0 are the same time
    format!("{m:?}").replace("-0.0", "0.0")
}

fn shifted(ctx: &mut Ctx, index: u64, base: &str, moved: &str, s: i64) {
    ctx.case(index, moved.as_bytes(), |ctx| {
        let (Ok(a), Ok(b)) = (rosu_map::from_str::<Beatmap>(base), rosu_map::from_str::<Beatmap>(moved)) else {
            ctx.violation("err_from_memory", "decode failed".into(), index, moved.as_bytes());
            return;
        };
        ctx.count("shift_pairs");
        ctx.seen("shifts", format!("{s}"));
        let (x, y) = (normalized(&a, 0.0), normalized(&b, s as f64));
        if x != y {
            let p = x.bytes().zip(y.bytes()).position(|(c, d)| c != d).unwrap_or(x.len().min(y.len()));
            let st = p.saturating_sub(120);
            ctx.violation(
                "shift_changes_more_than_times",
                format!(
                    "shifting every time by {s} ms changes more than times:\n unshifted: …{}\n shifted:   …{}",
                    x.get(st..(st + 300).min(x.len())).unwrap_or(""),
                    y.get(st..(st + 300).min(y.len())).unwrap_or("")
                ),
                index,
                moved.as_bytes(),
            );
        }
    });
}
