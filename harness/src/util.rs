//! Shared plumbing of the monitor workers: PRNG, digests, JSON output, case
//! runner with panic capture, report accumulation.

use std::{
    collections::BTreeMap,
    fmt::Write as _,
    io::Write as _,
    panic::{self, AssertUnwindSafe},
    sync::Mutex,
    time::Instant,
};

// ---------------------------------------------------------------- PRNG

/// splitmix64; every case gets its own stream derived from
/// (seed, property, tier, shard, index) so a case can be replayed alone.
#[derive(Clone)]
pub struct Rng(pub u64);

pub fn mix64(mut z: u64) -> u64 {
    z = (z ^ (z >> 30)).wrapping_mul(0xBF58_476D_1CE4_E5B9);
    z = (z ^ (z >> 27)).wrapping_mul(0x94D0_49BB_1331_11EB);
    z ^ (z >> 31)
}

impl Rng {
    pub fn new(seed: u64) -> Self {
        Self(mix64(seed ^ 0x6A09_E667_F3BC_C909))
    }

    pub fn derive(parts: &[u64]) -> Self {
        let mut h = 0x243F_6A88_85A3_08D3u64;
        for p in parts {
            h = mix64(h ^ p.wrapping_mul(0x9E37_79B9_7F4A_7C15)).wrapping_add(0x9E37_79B9_7F4A_7C15);
        }
        Self(h)
    }

    pub fn next(&mut self) -> u64 {
        self.0 = self.0.wrapping_add(0x9E37_79B9_7F4A_7C15);
        mix64(self.0)
    }

    /// uniform in 0..n (n > 0)
    pub fn below(&mut self, n: usize) -> usize {
        (self.next() % (n as u64)) as usize
    }

    pub fn range(&mut self, lo: i64, hi: i64) -> i64 {
        lo + (self.next() % ((hi - lo + 1) as u64)) as i64
    }

    /// uniform in [0,1)
    pub fn f(&mut self) -> f64 {
        (self.next() >> 11) as f64 / (1u64 << 53) as f64
    }

    pub fn chance(&mut self, num: usize, den: usize) -> bool {
        self.below(den) < num
    }

    pub fn pick<'a, T>(&mut self, v: &'a [T]) -> &'a T {
        &v[self.below(v.len())]
    }

    pub fn bytes(&mut self, n: usize) -> Vec<u8> {
        let mut v = Vec::with_capacity(n);
        while v.len() < n {
            let x = self.next().to_le_bytes();
            let k = (n - v.len()).min(8);
            v.extend_from_slice(&x[..k]);
        }
        v
    }
}

// ---------------------------------------------------------------- digests

pub fn fnv64(data: &[u8]) -> u64 {
    let mut h = 0xcbf2_9ce4_8422_2325u64;
    for b in data {
        h ^= u64::from(*b);
        h = h.wrapping_mul(0x0000_0100_0000_01B3);
    }
    mix64(h)
}

pub fn hex(data: &[u8]) -> String {
    const H: &[u8; 16] = b"0123456789abcdef";
    let mut s = Vec::with_capacity(data.len() * 2);
    for b in data {
        s.push(H[(b >> 4) as usize]);
        s.push(H[(b & 15) as usize]);
    }
    String::from_utf8(s).unwrap_or_default()
}

pub fn unhex(s: &str) -> Vec<u8> {
    let s = s.as_bytes();
    (0..s.len() / 2)
        .map(|i| {
            let h = |c: u8| match c {
                b'0'..=b'9' => c - b'0',
                b'a'..=b'f' => c - b'a' + 10,
                b'A'..=b'F' => c - b'A' + 10,
                _ => 0,
            };
            h(s[2 * i]) << 4 | h(s[2 * i + 1])
        })
        .collect()
}

/// Lossy, length-limited rendering of bytes for samples / details.
pub fn show(data: &[u8], max: usize) -> String {
    let cut = &data[..data.len().min(max)];
    let mut s = String::from_utf8_lossy(cut).into_owned();
    if data.len() > max {
        let _ = write!(s, "…(+{} bytes)", data.len() - max);
    }
    s
}

// ---------------------------------------------------------------- JSON

#[derive(Clone, Debug)]
pub enum J {
    Null,
    Bool(bool),
    U(u64),
    I(i64),
    F(f64),
    S(String),
    A(Vec<J>),
    O(Vec<(String, J)>),
}

impl J {
    pub fn s(x: impl Into<String>) -> J {
        J::S(x.into())
    }

    pub fn write(&self, out: &mut String) {
        match self {
            J::Null => out.push_str("null"),
            J::Bool(b) => out.push_str(if *b { "true" } else { "false" }),
            J::U(n) => {
                let _ = write!(out, "{n}");
            }
            J::I(n) => {
                let _ = write!(out, "{n}");
            }
            J::F(x) => {
                if x.is_finite() {
                    let _ = write!(out, "{x}");
                } else {
                    let _ = write!(out, "\"{x}\"");
                }
            }
            J::S(s) => {
                out.push('"');
                for c in s.chars() {
                    match c {
                        '"' => out.push_str("\\\""),
                        '\\' => out.push_str("\\\\"),
                        '\n' => out.push_str("\\n"),
                        '\r' => out.push_str("\\r"),
                        '\t' => out.push_str("\\t"),
                        c if (c as u32) < 0x20 => {
                            let _ = write!(out, "\\u{:04x}", c as u32);
                        }
                        c => out.push(c),
                    }
                }
                out.push('"');
            }
            J::A(v) => {
                out.push('[');
                for (i, x) in v.iter().enumerate() {
                    if i > 0 {
                        out.push(',');
                    }
                    x.write(out);
                }
                out.push(']');
            }
            J::O(v) => {
                out.push('{');
                for (i, (k, x)) in v.iter().enumerate() {
                    if i > 0 {
                        out.push(',');
                    }
                    J::S(k.clone()).write(out);
                    out.push(':');
                    x.write(out);
                }
                out.push('}');
            }
        }
    }

    pub fn to_string(&self) -> String {
        let mut s = String::new();
        self.write(&mut s);
        s
    }
}

// ---------------------------------------------------------------- context / report

#[derive(Clone, Copy, PartialEq, Eq, Debug)]
pub enum Tier {
    Quick,
    Thorough,
}

pub struct Ctx {
    pub prop: String,
    pub tier: Tier,
    pub seed: u64,
    pub shard: u64,
    pub nshards: u64,
    /// explicit per-shard case count override from the driver (0 = monitor default)
    pub cases: u64,
    /// soft time cap for this worker in seconds (0 = none)
    pub max_secs: f64,
    /// replay: run only this case index
    pub only: Option<u64>,
    /// replay: literal input bytes
    pub literal: Option<Vec<u8>>,
    /// monitor sub-mode (leg), e.g. "miri", "asan", "" = default
    pub leg: String,
    pub out: String,
    /// write the generated inputs of this leg to a file instead of executing them
    /// (used to keep workload generation out of the Miri interpreter)
    pub emit: Option<String>,
    /// execute the inputs of this file instead of generating them
    pub inputs: Option<String>,
    pub repo: String,
    pub start: Instant,
    progress: Option<std::fs::File>,
    pub report: Report,
}

#[derive(Default)]
pub struct Report {
    pub evaluations: u64,
    pub counters: BTreeMap<String, u64>,
    pub maxima: BTreeMap<String, f64>,
    pub sets: BTreeMap<String, std::collections::BTreeSet<String>>,
    pub samples: Vec<J>,
    pub violations: Vec<Violation>,
    pub known: BTreeMap<String, (u64, String)>,
    pub digests: Vec<u64>,
    pub exhaustive: Option<bool>,
    pub truncated_by_time: bool,
    pub inconclusive: Vec<String>,
    pub notes: Vec<String>,
}

#[derive(Clone, Debug)]
pub struct Violation {
    pub kind: String,
    pub detail: String,
    pub index: u64,
    /// literal witness (bytes of the input or a textual history)
    pub witness: Vec<u8>,
}

pub const MAX_VIOLATIONS_KEPT: usize = 20;
pub const MAX_SAMPLES: usize = 6;
pub const MAX_DIGESTS: usize = 6_000_000;

static PANIC_INFO: Mutex<Option<(String, String)>> = Mutex::new(None);

pub fn install_panic_hook() {
    panic::set_hook(Box::new(|info| {
        let loc = info
            .location()
            .map_or_else(String::new, |l| format!("{}:{}", l.file(), l.line()));
        let msg = if let Some(s) = info.payload().downcast_ref::<&str>() {
            (*s).to_string()
        } else if let Some(s) = info.payload().downcast_ref::<String>() {
            s.clone()
        } else {
            "<non-string panic payload>".to_string()
        };
        *PANIC_INFO.lock().unwrap_or_else(|e| e.into_inner()) = Some((loc, msg));
    }));
}

pub enum Caught<T> {
    Ok(T),
    /// panic raised from library (or std on behalf of it): (location, message)
    LibPanic(String, String),
    /// panic raised from the harness' own source: a harness bug, never a verdict
    HarnessPanic(String, String),
}

/// Runs `f`, classifying a panic by the source location that raised it.
pub fn guarded<T>(f: impl FnOnce() -> T) -> Caught<T> {
    match panic::catch_unwind(AssertUnwindSafe(f)) {
        Ok(v) => Caught::Ok(v),
        Err(_) => {
            let (loc, msg) = PANIC_INFO
                .lock()
                .unwrap_or_else(|e| e.into_inner())
                .take()
                .unwrap_or_default();
            if loc.contains("harness/src/") {
                Caught::HarnessPanic(loc, msg)
            } else {
                Caught::LibPanic(loc, msg)
            }
        }
    }
}

impl Ctx {
    pub fn new(prop: &str) -> Self {
        Self {
            prop: prop.to_string(),
            tier: Tier::Quick,
            seed: 1,
            shard: 0,
            nshards: 1,
            cases: 0,
            max_secs: 0.0,
            only: None,
            literal: None,
            leg: String::new(),
            out: String::new(),
            emit: None,
            inputs: None,
            repo: "/repo".to_string(),
            start: Instant::now(),
            progress: None,
            report: Report::default(),
        }
    }

    /// Pre-generated inputs, if the driver supplied a file.
    pub fn read_inputs(&self) -> Option<Vec<Vec<u8>>> {
        let f = self.inputs.as_ref()?;
        let data = std::fs::read(f).ok()?;
        let mut out = Vec::new();
        let mut p = 0;
        while p + 8 <= data.len() {
            let n = u64::from_le_bytes(data[p..p + 8].try_into().unwrap()) as usize;
            p += 8;
            if p + n > data.len() {
                break;
            }
            out.push(data[p..p + n].to_vec());
            p += n;
        }
        Some(out)
    }

    /// In emit mode: write the inputs and tell the caller to stop.
    pub fn emit_inputs(&self, inputs: &[Vec<u8>]) -> bool {
        let Some(f) = self.emit.as_ref() else { return false };
        let mut data = Vec::new();
        for i in inputs {
            data.extend_from_slice(&(i.len() as u64).to_le_bytes());
            data.extend_from_slice(i);
        }
        let _ = std::fs::write(f, data);
        true
    }

    pub fn quick(&self) -> bool {
        self.tier == Tier::Quick
    }

    /// number of cases this shard should run
    pub fn n(&self, quick_total: u64, thorough_total: u64) -> u64 {
        if self.cases > 0 {
            return self.cases;
        }
        let total = if self.quick() { quick_total } else { thorough_total };
        (total + self.nshards - 1) / self.nshards
    }

    pub fn prop_num(&self) -> u64 {
        self.prop.trim_start_matches('C').parse().unwrap_or(0)
    }

    pub fn rng_for(&self, stream: u64, index: u64) -> Rng {
        Rng::derive(&[
            self.seed,
            self.prop_num(),
            if self.quick() { 1 } else { 2 },
            self.shard,
            self.nshards,
            stream,
            index,
        ])
    }

    pub fn out_of_time(&mut self) -> bool {
        if self.max_secs > 0.0 && self.start.elapsed().as_secs_f64() > self.max_secs {
            self.report.truncated_by_time = true;
            true
        } else {
            false
        }
    }

    pub fn open_progress(&mut self) {
        if !self.out.is_empty() {
            self.progress = std::fs::File::create(format!("{}.progress", self.out)).ok();
        }
    }

    /// Record the case that is about to run so that a dying worker leaves a witness.
    pub fn progress(&mut self, stream: u64, index: u64, witness: &[u8]) {
        if let Some(f) = self.progress.as_mut() {
            use std::io::{Seek, SeekFrom};
            let _ = f.seek(SeekFrom::Start(0));
            let w = &witness[..witness.len().min(1 << 20)];
            let mut buf = Vec::with_capacity(w.len() + 64);
            buf.extend_from_slice(format!("{stream} {index} {}\n", w.len()).as_bytes());
            buf.extend_from_slice(w);
            let _ = f.write_all(&buf);
            let _ = f.set_len(buf.len() as u64);
        }
    }

    pub fn count(&mut self, key: &str) {
        *self.report.counters.entry(key.to_string()).or_insert(0) += 1;
    }

    pub fn add(&mut self, key: &str, n: u64) {
        *self.report.counters.entry(key.to_string()).or_insert(0) += n;
    }

    pub fn maxf(&mut self, key: &str, v: f64) {
        let e = self.report.maxima.entry(key.to_string()).or_insert(f64::MIN);
        if v > *e {
            *e = v;
        }
    }

    pub fn seen(&mut self, set: &str, item: impl Into<String>) {
        let s = self.report.sets.entry(set.to_string()).or_default();
        if s.len() < 512 {
            s.insert(item.into());
        }
    }

    /// one executed case; `nontrivial` = satisfies the property's non-triviality rule
    pub fn eval(&mut self, digest: u64, nontrivial: bool) {
        self.report.evaluations += 1;
        if nontrivial && self.report.digests.len() < MAX_DIGESTS {
            self.report.digests.push(digest);
        }
    }

    pub fn sample(&mut self, j: J) {
        if self.report.samples.len() < MAX_SAMPLES {
            self.report.samples.push(j);
        }
    }

    pub fn want_sample(&self) -> bool {
        self.report.samples.len() < MAX_SAMPLES
    }

    pub fn violation(&mut self, kind: &str, detail: String, index: u64, witness: &[u8]) {
        self.count(&format!("violations_{kind}"));
        if self.report.violations.len() < MAX_VIOLATIONS_KEPT {
            self.report.violations.push(Violation {
                kind: kind.to_string(),
                detail,
                index,
                witness: witness.to_vec(),
            });
        }
    }

    /// a refuting execution that matches a classifier of a listed finding
    pub fn known(&mut self, sig: &str, what: String) {
        let e = self.report.known.entry(sig.to_string()).or_insert((0, what));
        e.0 += 1;
    }

    pub fn inconclusive(&mut self, why: String) {
        if self.report.inconclusive.len() < 20 {
            self.report.inconclusive.push(why);
        }
    }

    pub fn note(&mut self, s: impl Into<String>) {
        self.report.notes.push(s.into());
    }

    /// Run one case under panic capture. A library panic is reported as a
    /// violation of kind `panic`, a harness panic makes the run inconclusive.
    pub fn case<T>(&mut self, index: u64, witness: &[u8], f: impl FnOnce(&mut Ctx) -> T) -> Option<T> {
        let t0 = watchdog::enter(index, witness);
        let res = guarded(|| f(self));
        let secs = watchdog::leave(t0);
        if secs > 1.0 {
            self.maxf("max_case_secs", secs);
        }
        match res {
            Caught::Ok(v) => Some(v),
            Caught::LibPanic(loc, msg) => {
                self.violation("panic", format!("panic at {loc}: {msg}"), index, witness);
                None
            }
            Caught::HarnessPanic(loc, msg) => {
                self.inconclusive(format!("harness panic at {loc}: {msg} (index {index})"));
                None
            }
        }
    }

    pub fn finish(&mut self) {
        let r = &mut self.report;
        let wall = self.start.elapsed().as_secs_f64();
        let digest_file = if self.out.is_empty() {
            String::new()
        } else {
            format!("{}.digests", self.out)
        };
        if !digest_file.is_empty() {
            let mut bytes = Vec::with_capacity(r.digests.len() * 8);
            for d in &r.digests {
                bytes.extend_from_slice(&d.to_le_bytes());
            }
            let _ = std::fs::write(&digest_file, bytes);
        }
        let mut distinct = r.digests.clone();
        distinct.sort_unstable();
        distinct.dedup();
        let j = J::O(vec![
            ("property".into(), J::s(self.prop.clone())),
            ("leg".into(), J::s(self.leg.clone())),
            ("shard".into(), J::U(self.shard)),
            ("nshards".into(), J::U(self.nshards)),
            ("seed".into(), J::U(self.seed)),
            ("evaluations".into(), J::U(r.evaluations)),
            ("distinct_nontrivial_shard".into(), J::U(distinct.len() as u64)),
            ("digest_file".into(), J::s(digest_file)),
            (
                "counters".into(),
                J::O(r.counters.iter().map(|(k, v)| (k.clone(), J::U(*v))).collect()),
            ),
            (
                "maxima".into(),
                J::O(r.maxima.iter().map(|(k, v)| (k.clone(), J::F(*v))).collect()),
            ),
            (
                "sets".into(),
                J::O(r
                    .sets
                    .iter()
                    .map(|(k, v)| (k.clone(), J::A(v.iter().map(|s| J::s(s.clone())).collect())))
                    .collect()),
            ),
            ("samples".into(), J::A(r.samples.clone())),
            (
                "violations".into(),
                J::A(r
                    .violations
                    .iter()
                    .map(|v| {
                        J::O(vec![
                            ("kind".into(), J::s(v.kind.clone())),
                            ("detail".into(), J::s(v.detail.clone())),
                            ("index".into(), J::U(v.index)),
                            ("witness_hex".into(), J::s(hex(&v.witness[..v.witness.len().min(1 << 20)]))),
                            ("witness_text".into(), J::s(show(&v.witness, 4000))),
                        ])
                    })
                    .collect()),
            ),
            (
                "known".into(),
                J::O(r
                    .known
                    .iter()
                    .map(|(k, (n, what))| {
                        (
                            k.clone(),
                            J::O(vec![("count".into(), J::U(*n)), ("what".into(), J::s(what.clone()))]),
                        )
                    })
                    .collect()),
            ),
            (
                "exhaustive".into(),
                match r.exhaustive {
                    Some(b) => J::Bool(b),
                    None => J::Null,
                },
            ),
            ("truncated_by_time".into(), J::Bool(r.truncated_by_time)),
            (
                "inconclusive".into(),
                J::A(r.inconclusive.iter().map(|s| J::s(s.clone())).collect()),
            ),
            ("notes".into(), J::A(r.notes.iter().map(|s| J::s(s.clone())).collect())),
            ("wall_s".into(), J::F(wall)),
        ]);
        let text = j.to_string();
        if self.out.is_empty() {
            println!("{text}");
        } else {
            let tmp = format!("{}.tmp", self.out);
            let _ = std::fs::write(&tmp, &text);
            let _ = std::fs::rename(&tmp, &self.out);
        }
    }
}

/// f64 with exact, NaN-safe, sign-of-zero-aware rendering
pub fn fb(x: f64) -> String {
    format!("{x:?}")
}

pub fn f32b(x: f32) -> String {
    format!("{x:?}")
}


/// Per-case watchdog inside the worker. The case in flight is published through atomics; a helper
/// thread notices a case that has been running longer than the limit, leaves `<out>.hang` (index and
/// witness of that case) and ends the process with exit code 5. The driver confirms the case alone in a
/// fresh process before it calls it non-termination. Without this a library change that makes decoding
/// spin would stall every shard until the coarse per-leg timeout.
pub mod watchdog {
    use std::sync::atomic::{AtomicPtr, AtomicU64, AtomicUsize, Ordering};
    use std::time::Instant;

    static START_NS: AtomicU64 = AtomicU64::new(0);
    static INDEX: AtomicU64 = AtomicU64::new(0);
    static WPTR: AtomicPtr<u8> = AtomicPtr::new(std::ptr::null_mut());
    static WLEN: AtomicUsize = AtomicUsize::new(0);
    static DEPTH: AtomicU64 = AtomicU64::new(0);

    fn now_ns() -> u64 {
        static T0: std::sync::OnceLock<Instant> = std::sync::OnceLock::new();
        T0.get_or_init(Instant::now).elapsed().as_nanos() as u64 + 1
    }

    /// returns the start stamp of the outermost case (nested `case` calls keep the outer one)
    pub fn enter(index: u64, witness: &[u8]) -> u64 {
        if DEPTH.fetch_add(1, Ordering::Relaxed) == 0 {
            INDEX.store(index, Ordering::Relaxed);
            WLEN.store(witness.len().min(1 << 20), Ordering::Relaxed);
            WPTR.store(witness.as_ptr().cast_mut(), Ordering::Relaxed);
            let t = now_ns();
            START_NS.store(t, Ordering::Release);
            t
        } else {
            0
        }
    }

    pub fn leave(t0: u64) -> f64 {
        if DEPTH.fetch_sub(1, Ordering::Relaxed) == 1 {
            START_NS.store(0, Ordering::Release);
        }
        if t0 == 0 {
            0.0
        } else {
            (now_ns() - t0) as f64 / 1e9
        }
    }

    /// `limit_secs` = 0 disables the watchdog (Miri: no helper thread in the interpreter)
    pub fn start(limit_secs: f64, out: String) {
        if limit_secs <= 0.0 || cfg!(miri) {
            return;
        }
        let _ = now_ns();
        std::thread::spawn(move || loop {
            std::thread::sleep(std::time::Duration::from_millis(250));
            let s = START_NS.load(Ordering::Acquire);
            if s == 0 {
                continue;
            }
            let running = (now_ns().saturating_sub(s)) as f64 / 1e9;
            if running > limit_secs {
                let (idx, len, ptr) = (INDEX.load(Ordering::Relaxed), WLEN.load(Ordering::Relaxed), WPTR.load(Ordering::Relaxed));
                // the witness is borrowed by the stuck case for as long as it runs
                let bytes: Vec<u8> = if ptr.is_null() { Vec::new() } else { unsafe { std::slice::from_raw_parts(ptr, len) }.to_vec() };
                if START_NS.load(Ordering::Acquire) != s {
                    continue; // the case ended while we were looking
                }
                let mut buf = format!("{idx} {}\n", bytes.len()).into_bytes();
                buf.extend_from_slice(&bytes);
                if !out.is_empty() {
                    let _ = std::fs::write(format!("{out}.hang"), &buf);
                }
                eprintln!("WATCHDOG: case {idx} has been running for {running:.0}s (limit {limit_secs}s)");
                std::process::exit(5);
            }
        });
    }
}
