//! rvmon — runtime monitors for rosu-map (one worker process = one shard of one property leg).

#![allow(dead_code, clippy::all)]

mod gen;
mod model;
mod obs;
mod prop;
mod util;

use util::{Ctx, Tier};

fn usage() -> ! {
    eprintln!(
        "usage: rvmon run <C01..C20> [--tier quick|thorough] [--seed N] [--shard I] [--nshards N]\n\
         \x20            [--cases N] [--max-secs S] [--leg NAME] [--out FILE] [--repo DIR]\n\
         \x20            [--index K] [--literal-hex HEX | --literal-file FILE]\n\
         \x20      rvmon merge-digests <file>...\n\
         \x20      rvmon features"
    );
    std::process::exit(2)
}

fn main() {
    let args: Vec<String> = std::env::args().collect();
    if args.get(1).map(String::as_str) == Some("roundtrip") {
        obs::trlog::install();
    }
    match args.get(1).map(String::as_str) {
        Some("run") => run(&args[2..]),
        Some("merge-digests") => merge(&args[2..]),
        Some("roundtrip") => {
            // triage helper: print encode(decode(file)) and what the decoder says about it
            let bytes = std::fs::read(&args[2]).expect("read");
            let mut m: rosu_map::Beatmap = rosu_map::from_bytes(&bytes).expect("decode");
            println!("objects {} timing {} difficulty {} effect {} sample {}", m.hit_objects.len(), m.control_points.timing_points.len(),
                m.control_points.difficulty_points.len(), m.control_points.effect_points.len(), m.control_points.sample_points.len());
            let enc = m.encode_to_string().expect("encode");
            println!("{enc}");
            let m2: rosu_map::Beatmap = rosu_map::from_str(&enc).expect("decode2");
            println!("objects {} timing {} difficulty {} effect {} sample {}", m2.hit_objects.len(), m2.control_points.timing_points.len(),
                m2.control_points.difficulty_points.len(), m2.control_points.effect_points.len(), m2.control_points.sample_points.len());
            if std::env::var("RVMON_DEBUG").is_ok() {
                println!("m1 control points: {:#?}", m.control_points);
                println!("m2 control points: {:#?}", m2.control_points);
            }
            for ev in obs::trlog::take() {
                println!("EVENT {ev}");
            }
        }
        Some("features") => {
            println!(
                "tracing={} debug_assertions={}",
                obs::trlog::ENABLED,
                cfg!(debug_assertions)
            );
        }
        _ => usage(),
    }
}

fn merge(files: &[String]) {
    let mut all: Vec<u64> = Vec::new();
    for f in files {
        if let Ok(bytes) = std::fs::read(f) {
            for c in bytes.chunks_exact(8) {
                all.push(u64::from_le_bytes(c.try_into().unwrap()));
            }
        }
    }
    all.sort_unstable();
    all.dedup();
    println!("{}", all.len());
}

fn run(args: &[String]) {
    let Some(prop) = args.first() else { usage() };
    let mut ctx = Ctx::new(prop);
    let mut i = 1;
    while i < args.len() {
        let val = || args.get(i + 1).cloned().unwrap_or_else(|| usage());
        match args[i].as_str() {
            "--tier" => {
                ctx.tier = if val() == "thorough" { Tier::Thorough } else { Tier::Quick };
            }
            "--seed" => ctx.seed = val().parse().unwrap_or(1),
            "--shard" => ctx.shard = val().parse().unwrap_or(0),
            "--nshards" => ctx.nshards = val().parse::<u64>().unwrap_or(1).max(1),
            "--cases" => ctx.cases = val().parse().unwrap_or(0),
            "--max-secs" => ctx.max_secs = val().parse().unwrap_or(0.0),
            "--leg" => ctx.leg = val(),
            "--out" => ctx.out = val(),
            "--emit" => ctx.emit = Some(val()),
            "--inputs" => ctx.inputs = Some(val()),
            "--repo" => ctx.repo = val(),
            "--index" => ctx.only = val().parse().ok(),
            "--literal-hex" => ctx.literal = Some(util::unhex(&val())),
            "--literal-file" => ctx.literal = std::fs::read(val()).ok(),
            _ => usage(),
        }
        i += 2;
    }
    util::install_panic_hook();
    obs::trlog::install();
    ctx.open_progress();
    let limit = std::env::var("RVMON_CASE_LIMIT_SECS").ok().and_then(|v| v.parse::<f64>().ok()).unwrap_or(0.0);
    util::watchdog::start(limit, ctx.out.clone());
    let known = match util::guarded(|| prop::dispatch(&mut ctx)) {
        util::Caught::Ok(k) => k,
        util::Caught::LibPanic(loc, msg) | util::Caught::HarnessPanic(loc, msg) => {
            // a panic outside any monitored case is a harness error, never a verdict
            eprintln!("HARNESS-PANIC at {loc}: {msg}");
            ctx.inconclusive(format!("harness panic outside a case at {loc}: {msg}"));
            ctx.finish();
            std::process::exit(3);
        }
    };
    if !known {
        eprintln!("unknown property {prop}");
        std::process::exit(2);
    }
    ctx.finish();
}
