"""Table of legs (build flavour x shards x cases per shard), minimum observations and
evidence texts per property. Kept apart from the driver so that budgets are in one place."""


def leg(name, flavour, shards, cases=None, timeout=900, max_secs=None, optional=False, pregen=False):
    return {"name": name, "flavour": flavour, "shards": shards, "cases": cases, "timeout": timeout,
            "max_secs": max_secs, "optional": optional, "pregen": pregen}


COMMON_ASSUMPTIONS = [
    "the oracle observes only executions produced by this run's workloads; nothing is claimed about inputs not generated",
    "rustc/std and the harness' own reference code are trusted",
]

PROPS = {
    "C01": {
        "level": "exploration",
        "rule": ("inputs: uniform/structured noise, grammar-generated .osu text (hostile numerics, scrambled sections), "
                 "byte/line/field mutants and splices of the bundled maps, UTF-8+BOM/UTF-16LE/UTF-16BE transcodings with "
                 "damage (odd tails, lone surrogates, invalid bytes), every prefix of bundled maps in 4 encodings; each input "
                 "is decoded by all nine decoder types + from_str, the Beatmap is encoded twice and decoded again. "
                 "non-trivial = the Recorder trace of the input has at least one line dispatched to a section parser; "
                 "distinct = by FNV-64 of the input bytes, merged over all legs"),
        "assumptions": COMMON_ASSUMPTIONS + [
            "memory safety is judged by Miri (aliasing/validity), AddressSanitizer (heap/stack red zones), valgrind memcheck on the release binary and a "
            "debug-assertions+overflow-checks build (unsafe preconditions, integer overflow) on the inputs those legs ran; "
            "a clean sanitizer run is not a proof of memory safety",
            "non-termination is judged by a per-worker watchdog followed by a solo re-run of the in-flight case",
            "encoding is skipped (and counted) for maps whose estimated slider-event count exceeds 2e6",
        ],
        "quick": [
            leg("main", "rel", 16, 9000, timeout=600, max_secs=150),
            leg("tracing", "reltr", 8, 4000, timeout=600, max_secs=150),
            leg("dbg", "dbg", 8, 2500, timeout=600, max_secs=150),
            leg("asan", "asan", 8, 1500, timeout=600, max_secs=150, optional=True),
            leg("miri", "miri", 16, 6, timeout=900, max_secs=240, pregen=True),
            leg("memcheck", "memcheck", 4, 250, timeout=600, max_secs=120, optional=True),
        ],
        "thorough": [
            leg("main", "rel", 16, 250000, timeout=3600, max_secs=800),
            leg("tracing", "reltr", 16, 60000, timeout=3600, max_secs=800),
            leg("dbg", "dbg", 16, 40000, timeout=3600, max_secs=800),
            leg("asan", "asan", 16, 30000, timeout=3600, max_secs=800, optional=True),
            leg("miri", "miri", 16, 150, timeout=3600, max_secs=900, pregen=True),
            leg("memcheck", "memcheck", 16, 6000, timeout=3600, max_secs=900, optional=True),
        ],
        "min": {"decodes_ok": 1000, "encodes_ok": 500, "objects_slider": 500, "class_noise": 50,
                "class_bundled-mutant": 50, "enc_utf16le-bom": 50, "enc_utf16be-bom": 50, "enc_invalid-utf8": 20},
    },
    "C02": {
        "level": "exploration",
        "rule": ("inputs: grammar-generated maps with chronological timing/object lines (clean, unusual-but-accepted spellings, hostile tokens; all modes, "
                 "versions 3..128, all object kinds, typed multi-segment paths, same-time timing groups, scrambled section order), whole and mutated "
                 "bundled maps; inputs whose accepted timing/object lines are not chronological are skipped and counted. Oracle: field-by-field key of "
                 "M1=decode(x) vs M2=decode(encode(M1)) (scalars, timing points, sv/kiai/scroll timelines probed at every control-point/object/node "
                 "time and midpoints, per-object head, control points, curve path+lengths, sample names/banks), repeated on encode(M1) as input. "
                 "non-trivial = the map has at least one hit object or timing point; distinct by FNV-64 of the input bytes"),
        "assumptions": COMMON_ASSUMPTIONS + ["floats are compared by exact rendering; control points/curves of sliders with two consecutive explicit Catmull segments are excluded as the statement says",
                                             "encoding is skipped (and counted) for maps whose estimated slider-event count exceeds 2e6"],
        "quick": [leg("main", "rel", 16, 3000, timeout=600, max_secs=150), leg("dbg", "dbg", 8, 600, timeout=600, max_secs=150)],
        "thorough": [leg("main", "rel", 16, 400000, timeout=3600, max_secs=900), leg("dbg", "dbg", 16, 40000, timeout=3600, max_secs=800),
                     leg("asan", "asan", 8, 20000, timeout=3600, max_secs=700, optional=True)],
        "min": {"round_trips": 10000, "second_generation_round_trips": 5000, "sliders_compared": 10000, "mode_taiko": 500, "mode_mania": 500,
                "mode_catch": 500, "positive_ids": 1000, "class_bundled-whole": 40},
    },
    "C03": {
        "level": "exploration",
        "rule": ("decoded maps of the C02 domain x 1-4 simultaneous edits out of 36 edit kinds (8 metadata texts built from colon/comment/header/version-like, "
                 "quoted, non-ASCII fragments; audio and background file names; every numeric field at its limits; flags; mode; countdown; bookmarks; "
                 "0-16 combo colours; named colours; breaks; ids). Oracle: E=decode(encode(edit(M))) shows exactly the edited values and every other "
                 "compared field equals B=decode(encode(M)). non-trivial = every case with at least one edit; distinct by FNV-64 of (input, edit list)"),
        "assumptions": COMMON_ASSUMPTIONS + ["value generators produce only what the format can carry: no line breaks or surrounding whitespace in texts, no '//' or backslash in file names, "
                                             "integers for AudioLeadIn, clamped ranges for slider multiplier/tick rate, alpha 255",
                                             "a mode or slider-multiplier edit legitimately changes derived object data, so only scalar fields are compared then; a break edit legitimately changes combo starts, so combo flags are masked then"],
        "quick": [leg("main", "rel", 16, 2000, timeout=600, max_secs=150)],
        "thorough": [leg("main", "rel", 16, 600000, timeout=3600, max_secs=900)],
        "min": {"fields_checked_unchanged": 500000, "edit_title": 300, "edit_audio_file": 300, "edit_bookmarks": 300, "edit_breaks": 300,
                "edit_custom_colors": 300, "edit_mode": 300, "edit_beatmap_id(positive)": 300, "edits_per_case_4": 2000},
    },
    "C04": {
        "level": "exploration",
        "rule": ("every map decoded from the hostile C01 stream (including non-chronological and garbage inputs) and every bundled file is encoded; the encoding "
                 "must start with the version line, carry the eight headers once in canonical order, and every in-section line must be accepted (a) per the "
                 "decoder's own tracing event log and (b) by the public parse_<section> functions on a fresh state; line counts per section must equal the "
                 "record counts of the map and the re-decoded map must keep bookmarks, breaks, colours, timing points and objects by (time, kind). "
                 "non-trivial = the map has a hit object or timing point; distinct by FNV-64 of the input bytes"),
        "assumptions": COMMON_ASSUMPTIONS + ["the event-log oracle needs the crate's tracing feature (leg 'main' is built with it); the dbg leg uses oracle (b) only"],
        "quick": [leg("main", "reltr", 16, 4000, timeout=600, max_secs=150), leg("dbg", "dbg", 8, 800, timeout=600, max_secs=150)],
        "thorough": [leg("main", "reltr", 16, 800000, timeout=3600, max_secs=900), leg("dbg", "dbg", 16, 60000, timeout=3600, max_secs=800)],
        "min": {"encodings_checked": 20000, "encoded_lines_parsed": 500000, "event_logs_inspected": 20000, "objects_read_back": 100000},
    },
    "C05": {
        "level": "exploration",
        "rule": ("exhaustive: every sequence of line kinds up to length 3 (quick) / 4 (thorough) over a 54-kind alphabet (blank, "
                 "whitespace, comments, 8 version-line kinds, 11 headers, 6 header look-alikes, valid and invalid records of every "
                 "section, CR / U+3000 / U+0085 endings) in LF/CRLF with and without final newline, a 1/16 sample of them in "
                 "UTF-8+BOM, UTF-16LE, UTF-16BE; random sequences of length 5-40 in all four encodings; metamorphic filler "
                 "insertion and CRLF variants. Oracle: Recorder trace == framing model trace, Beatmap == reference driver over "
                 "the public section parsers. non-trivial = at least one line is dispatched to a section parser; distinct by "
                 "FNV-64 of the bytes"),
        "assumptions": COMMON_ASSUMPTIONS + ["the framing model is written from the property statement; std's lossy UTF-8/UTF-16 conversions are the trusted text reference"],
        "quick": [leg("main", "rel", 16, 4000, timeout=600, max_secs=120)],
        "thorough": [leg("main", "rel", 16, 1500000, timeout=3600, max_secs=800)],
        "min": {"dispatched_lines": 10000, "metamorphic_blank-inserted": 1000, "metamorphic_comment-inserted": 1000,
                "metamorphic_crlf": 1000, "class_enumerated-transcoded": 1000, "explicit_version_seen": 1000},
    },
    "C06": {
        "level": "exploration",
        "rule": ("generated files in which 1-5 valid records (biased to the stateful hit-object and timing-point sections) are corrupted (field replaced by junk, "
                 "garbage appended, truncated, swapped, overflowed; for sliders: corruption inside the k-th segment of a multi-segment path, bad bank info after a "
                 "valid path), each optionally followed by observers (the original record, a plain slider, a circle). Rejected lines are identified by driving "
                 "the public parse functions over the dispatch walk and cross-checked against the decoder's tracing event log; for every rejected line the file "
                 "is decoded again without it and compared deeply (Beatmap incl. curves + one specialised decoder); after every Err the public hit-object "
                 "state must be unchanged. non-trivial = the file contains at least one rejected line; distinct by FNV-64 of the file"),
        "assumptions": COMMON_ASSUMPTIONS + ["the walk that maps dispatched lines to file positions is the framing model of C05"],
        "quick": [leg("main", "reltr", 16, 2500, timeout=600, max_secs=150), leg("dbg", "dbg", 8, 600, timeout=600, max_secs=150),
                  leg("miri", "miri", 8, 3, timeout=900, max_secs=240, pregen=True)],
        "thorough": [leg("main", "reltr", 16, 150000, timeout=3600, max_secs=900), leg("dbg", "dbg", 16, 10000, timeout=3600, max_secs=800),
                     leg("miri", "miri", 16, 60, timeout=3600, max_secs=900, pregen=True)],
        "min": {"rejected_General": 200, "rejected_Editor": 200, "rejected_Metadata": 100, "rejected_Difficulty": 200, "rejected_Events": 100,
                "rejected_TimingPoints": 200, "rejected_Colours": 200, "rejected_HitObjects": 200, "event_log_rejections": 5000},
    },
    "C07": {
        "level": "exploration",
        "rule": ("the C01 hostile input stream (well-formed, hostile, mutated, all encodings) plus every bundled file whole; "
                 "each input is decoded by Beatmap and by the eight specialised decoders and every shared field is compared "
                 "through its exact Debug rendering. non-trivial = the Beatmap differs from Beatmap::default(); distinct by "
                 "FNV-64 of the input bytes"),
        "assumptions": COMMON_ASSUMPTIONS + ["the projection tables (which fields a decoder shares with Beatmap) are read off the public struct definitions"],
        "quick": [leg("main", "rel", 16, 8000, timeout=600, max_secs=150)],
        "thorough": [leg("main", "rel", 16, 700000, timeout=3600, max_secs=800)],
        "min": {"decoder_comparisons": 8000, "inputs_with_objects": 500, "inputs_with_timing_points": 500,
                "inputs_with_colours": 100, "inputs_with_events": 100},
    },
    "C08": {
        "level": "exploration",
        "rule": ("inputs: every bundled file (windowed) and generated files in all four encodings, plus all byte strings up to length 4/5 over a "
                 "BOM-ish alphabet; deliveries: from_str, from_path, BufReader capacities 1..16, every fixed chunk size 1..64 through a reader "
                 "that exposes exactly the scheduled chunk, 20-60 random variable schedules per input, half of them with Interrupted results "
                 "injected before chosen fill_buf/read calls. Oracle: Recorder trace (every delivery) and Beatmap (a subset) equal those of "
                 "from_bytes and no delivery errors. One evaluation = one input with all its deliveries; byte_schedule_pairs counts the pairs. "
                 "non-trivial = at least one dispatched line, or a file of <= 6 bytes (BOM sniffing); distinct by FNV-64 of the bytes"),
        "assumptions": COMMON_ASSUMPTIONS + ["schedules are deterministic inputs (chunk lists and interrupt placements), not thread interleavings; the crate has no threads"],
        "quick": [leg("main", "rel", 16, 300, timeout=600, max_secs=150)],
        "thorough": [leg("main", "rel", 16, 40000, timeout=3600, max_secs=800)],
        "min": {"byte_schedule_pairs": 100000, "interrupts_fired": 2000, "from_path_compared": 50, "from_str_compared": 200,
                "class_tiny-bomish": 5000, "class_bundled": 100},
    },
    "C09": {
        "level": "fault_enumeration",
        "rule": ("reader faults: every byte offset 0..=len (quick: up to 700 sampled offsets, rotating kinds) of the small bundled files, 256 sampled "
                 "offsets of the large ones (thorough) and of generated files in four encodings x error kinds {Other, UnexpectedEof, PermissionDenied, "
                 "TimedOut, WouldBlock} x reader chunk sizes {1,7,64,8192} x {persistent, one-shot} faults; writer faults: every (sampled) output offset x {error, Ok(0)} + flush-only "
                 "failure + short-write/Interrupted schedules. A fault counts only if the injecting reader/writer actually fired. One evaluation = one "
                 "fired fault; distinct = (file, fault ordinal)"),
        "assumptions": COMMON_ASSUMPTIONS + ["the injected error carries a marker payload so the oracle can tell that exactly this error was returned"],
        "quick": [leg("main", "rel", 16, 60, timeout=600, max_secs=150)],
        "thorough": [leg("main", "rel", 16, 4000, timeout=3600, max_secs=800)],
        "min": {"faults_injected": 20000, "reader_fault_Other": 500, "reader_fault_WouldBlock": 500, "writer_fault_Error": 1000,
                "writer_fault_Zero": 1000, "writer_fault_Flush": 20, "reader_faults_one_shot": 2000, "short_write_schedules": 100, "interrupts_fired": 200},
    },
    "C10": {
        "level": "exploration",
        "rule": ("(1) generated and bundled texts transcoded to UTF-8+BOM/UTF-16LE/UTF-16BE must give the UTF-8 trace and Beatmap; "
                 "(2) every Unicode scalar value (thorough: all 1 112 064, exhaustive; quick: U+0000-U+0FFF, every 16th, every scalar "
                 "with a 0x0A byte in its UTF-16 unit) as inner, whole and last-character-of-file Metadata content in all four encodings vs the framing model "
                 "and vs UTF-8, plus all pairs U+xx00 U+0Ayy and U+xx0A U+00yy (thorough; every third in quick) which put 00 0A / 0A 00 byte patterns across unit boundaries; "
                 "(3) random invalid-UTF-8 bytes, truncated/overlong sequences, lone/reversed surrogates and every "
                 "truncation of the last two lines of UTF-16 files vs the model that applies std's lossy conversion per line. "
                 "non-trivial = a line reaches a section parser (1,2) / a dispatched line contains U+FFFD (3); distinct by FNV-64 of the bytes"),
        "assumptions": COMMON_ASSUMPTIONS + ["String::from_utf8_lossy and String::from_utf16_lossy are the trusted reference for replacement",
                                             "a source text that starts with U+FEFF has that character stripped before transcoding (only one BOM is sniffed by design)"],
        "quick": [leg("main", "rel", 16, 3500, timeout=600, max_secs=150),
                  leg("asan", "asan", 4, 1500, timeout=600, max_secs=120, optional=True),
                  leg("miri", "miri", 8, 6, timeout=900, max_secs=240, pregen=True)],
        "thorough": [leg("main", "rel", 16, 90000, timeout=3600, max_secs=900),
                     leg("asan", "asan", 8, 20000, timeout=3600, max_secs=700, optional=True),
                     leg("miri", "miri", 16, 100, timeout=3600, max_secs=900, pregen=True)],
        "min": {"scalars_checked": 20000, "scalars_with_0a_byte": 500, "scalars_supplementary": 1000, "scalar_pairs_checked": 20000, "cross_utf16le-bom": 1000,
                "texts_with_non_ascii": 500, "damage_invalid_utf8": 1000, "damage_lone_surrogates": 500, "odd_utf16_tails": 1000,
                "inputs_with_replacement_in_dispatched_line": 500},
    },
    "C11": {
        "level": "exploration",
        "rule": ("exhaustive: every recognised and several unknown/misspelled keys of General, Editor, Metadata, Difficulty, Colours x 67 value classes (valid, both "
                 "boundaries of every limit and clamp, overflow, NaN/inf, empty, padded, +n, comment-suffixed, extra colons, wrong type) x 6 spellings as single "
                 "records; every same-key ordered pair; all key pairs of Difficulty and Colours; all singles, ordered pairs and triples of 36 event shapes; plus "
                 "random sequences of up to 5 sections x 7 records. Oracle: decoded fields == table-driven reference written from the statement. "
                 "non-trivial = the reference result differs from the default map; distinct by FNV-64 of the text"),
        "assumptions": COMMON_ASSUMPTIONS + ["which lines reach which section is taken from the framing model (checked separately by C05)"],
        "quick": [leg("main", "rel", 16, 25000, timeout=600, max_secs=150)],
        "thorough": [leg("main", "rel", 16, 12000000, timeout=3600, max_secs=900)],
        "min": {"records_General": 50000, "records_Editor": 50000, "records_Metadata": 50000, "records_Difficulty": 50000, "records_Events": 50000, "records_Colours": 50000},
    },
    "C12": {
        "level": "exploration",
        "rule": ("exhaustive: all sequences of length <= 3 (quick) / 4 (thorough) over a spread sub-alphabet (~58 lines) of 7 times {0, 1e-17, 10, 10.0, 20, -5, -0} x 9 beat "
                 "lengths {500, -50, 0, -1e-5, 1e9, NaN, -200, 5, -1e6} x 9 field tails (timing/inherited, kiai/omit flags, banks 0-3/9, volumes -5..150, trailing fields "
                 "cut) in all four modes; plus random sequences of 5-60 lines mixing alphabet lines with generated ones (real-valued, decreasing and repeated times, "
                 "omitted trailing fields, hostile tokens, General defaults for bank/volume). Oracle: decoded lists == legacy pending-group model (linear scans), and, "
                 "separately, strict time order and clamps. non-trivial = at least one line accepted; distinct by FNV-64 of the text"),
        "assumptions": COMMON_ASSUMPTIONS + ["-0.0 and 0.0 are the same time"],
        "quick": [leg("main", "rel", 16, 4000, timeout=600, max_secs=150)],
        "thorough": [leg("main", "rel", 16, 1500000, timeout=3600, max_secs=900)],
        "min": {"lines_accepted": 200000, "lines_rejected": 20000, "points_compared": 400000, "cases_with_nan_inherited_line": 5000, "random_cases": 10000},
    },
    "C13": {
        "level": "exploration",
        "rule": ("exhaustive: all histories of ControlPoints::add calls of length <= 4 (quick) / 5 (thorough) over 32 operations (4 kinds x times {-1,0,1,2} x 2 values); "
                 "random histories of 10-200 operations over pooled fractional/negative/duplicate times including -0.0 and values that are redundant, different, or "
                 "below the redundancy epsilon. After every operation all four lists are compared with a linear-scan reference, strict order is asserted, and all four "
                 "lookups are probed at every stored time, every midpoint and beyond both ends. non-trivial = history of at least 2 operations; distinct by hash of the history"),
        "assumptions": COMMON_ASSUMPTIONS + ["-0.0 and 0.0 are the same time"],
        "quick": [leg("main", "rel", 16, 2500, timeout=600, max_secs=150), leg("dbg", "dbg", 4, 300, timeout=600, max_secs=120)],
        "thorough": [leg("main", "rel", 16, 400000, timeout=3600, max_secs=900), leg("dbg", "dbg", 8, 5000, timeout=3600, max_secs=900)],
        "min": {"operations_checked": 500000, "lookups_checked": 5000000},
    },
    "C14": {
        "level": "exploration",
        "rule": ("exhaustive: 256 type bytes x 256 hit-sound bytes of a circle-shaped line in three contexts (first object / after a spinner / after a circle); "
                 "histories of 40 generated lines fed into one long-lived parser state: a field-wise generator over all four kinds, every extras shape, path strings "
                 "over letters B,L,P,C,Bn,B0,Bx,X,b,P2 with duplicate/collinear/origin points, 1-5 segments, malformed points, boundary numerics (131072/131073, "
                 "9000/9001, 2^31), the hostile grammar generator, and well-formed slider lines. Oracle: accept/reject and every projected field (position, kind, combo, "
                 "control points+types, length, repeats, node samples, samples) equal to an independent reference parser, compared on the object pushed before map-level "
                 "defaults. One evaluation = one line; distinct by FNV-64 of the line"),
        "assumptions": COMMON_ASSUMPTIONS + ["the reference parser is hand-written from the legacy grammar as the statement summarises it"],
        "quick": [leg("main", "rel", 16, 400, timeout=600, max_secs=150), leg("dbg", "dbg", 8, 100, timeout=600, max_secs=150),
                  leg("miri", "miri", 8, 4, timeout=900, max_secs=240, pregen=True)],
        "thorough": [leg("main", "rel", 16, 25000, timeout=3600, max_secs=900), leg("dbg", "dbg", 16, 1500, timeout=3600, max_secs=800),
                     leg("miri", "miri", 16, 25, timeout=3600, max_secs=900, pregen=True)],
        "min": {"accepted_circle": 20000, "accepted_slider": 20000, "accepted_spinner": 10000, "accepted_hold": 5000, "rejected_lines": 20000,
                "multi_segment_sliders": 5000, "exhaustive_type_sound_context_cases": 196608},
    },
    "C15": {
        "level": "exploration",
        "rule": ("generated maps with integer times (sorted and unsorted object lines, equal start times, breaks before/between/after objects in any order, control points "
                 "exactly on and 4/5/6 ms around object times, all modes, versions 3-128). (a) Recomputation: raw objects are obtained through the public per-line API in file "
                 "order and post-processed by the reference (stable order, first object after each break, closed-form velocity and duration at 1e-12, sample defaults "
                 "from the sample point active 5 ms after the end / each node) and compared with the decoder's output. (b) Metamorphic: the same map generated with every "
                 "time shifted by s in {+-1, +-999, +-10^6, random} must decode to the same map with times shifted by s and nothing else changed. Lookups within 1e-6 ms "
                 "of a sample point but not equal are counted as ambiguous and not judged. non-trivial = at least two hit objects; distinct by FNV-64 of the text"),
        "assumptions": COMMON_ASSUMPTIONS + ["the decoded control points and curve distances are taken as given (checked by C12/C13 and C16/C17)",
                                             "what a sample takes from a sample point follows SamplePoint::apply as documented (volume if 0, custom index if 0, bank if unspecified)"],
        "quick": [leg("main", "rel", 16, 1500, timeout=600, max_secs=150)],
        "thorough": [leg("main", "rel", 16, 150000, timeout=3600, max_secs=900)],
        "min": {"objects_recomputed": 50000, "sliders_recomputed": 15000, "node_sample_sets_recomputed": 50000, "shift_pairs": 20000,
                "maps_with_unsorted_object_lines": 2000, "maps_with_equal_start_times": 2000, "breaks_followed_by_an_object": 1000,
                "lookups_exactly_on_a_sample_point": 500},
    },
    "C16": {
        "level": "exploration",
        "rule": ("exhaustive: all 2- and 3-point paths on the integer grid [-3,3]^2 (x8 px) x 4 path types x 7 requested-length classes {1e-3, inside, exactly natural, "
                 "beyond, far beyond, 131072, small absolute} x 4 modes; random control-point lists of 1-12 points (every type layout incl. typed last point and untyped "
                 "start, integer/fractional coordinates up to +-4096 and a +-131072 slice, duplicates, collinear runs) x the same length classes x 4 modes. Oracle: "
                 "N=Curve::new(.., None), A=Curve::new(.., Some(L)); A.dist()==L bitwise outside the two stated exceptions; A == N cut/extended by an independent reference "
                 "(lengths bitwise, coordinates 1e-3 + 1e-6 scale); lengths start at 0, finite, non-decreasing within 1e-5; natural dist == polyline length; osu! Catmull "
                 "total == unsimplified total. Every adjusted curve is also run through the C19 relations. non-trivial = at least 2 control points; distinct by hash of (mode, points, L)"),
        "assumptions": COMMON_ASSUMPTIONS + ["|natural - L| < f64::EPSILON counts as 'exactly natural' (the statement's own case class)"],
        "quick": [leg("main", "rel", 16, 3000, timeout=600, max_secs=150), leg("dbg", "dbg", 8, 500, timeout=600, max_secs=150)],
        "thorough": [leg("main", "rel", 16, 1500000, timeout=3600, max_secs=900), leg("dbg", "dbg", 16, 8000, timeout=3600, max_secs=800)],
        "min": {"adjusted_curves": 200000, "cut": 50000, "extended": 50000, "exactly_natural": 10000, "exception_equal_last_points": 1000,
                "exception_single_point": 1000, "osu_catmull_totals_compared": 1000},
    },
    "C17": {
        "level": "exploration",
        "rule": ("exhaustive: all three-point perfect curves with points on the integer grid [-4,4]^2 at scales 1, 7, 60 px; random: arcs in all orientations (near-collinear, "
                 "tiny and huge radii, threshold-riding sub-point counts, almost straight ones that must fall back), Beziers with 2-10 points incl. threshold-riding quadratics, "
                 "Catmull with 2-8 points incl. repeated points in osu! and non-osu! mode, linear paths, and 2-4 segment compositions for the joint rule; coordinates in "
                 "[-4096,4096]. Oracle: two-sided distance between the path and independently evaluated exact curves (de Casteljau, circumcircle with side selection, uniform "
                 "Catmull-Rom with legacy mirroring) within bounds derived from the tolerances; mandated fallbacks; segment end points; multi-segment path == concatenation of "
                 "the segments' paths with identical joint vertices kept once. Ill-conditioned arcs (f32 circumcentre error > 0.05 px) are only checked structurally and counted. "
                 "non-trivial = the shape was judged (not skipped as numerically undecidable); distinct by hash of the points"),
        "assumptions": COMMON_ASSUMPTIONS + ["the oracle is a distance bound, as the property is: a coarser flattening that stays within the derived bound is not reported; "
                                             "the Bezier bound is the provable one for tolerance 0.25 (observed deviations are about 0.2 of it), arc and Catmull bounds are sharp (observed 0.9)"],
        "quick": [leg("main", "rel", 16, 4000, timeout=600, max_secs=150)],
        "thorough": [leg("main", "rel", 16, 700000, timeout=3600, max_secs=900)],
        "min": {"arcs_judged_tightly": 20000, "arc_collinear_fallback": 500, "arc_enormous_fallback": 500, "beziers_judged": 10000, "catmull_judged": 5000,
                "catmull_osu_judged": 5000, "linear_judged": 5000, "joints_checked": 5000},
    },
    "C18": {
        "level": "exploration",
        "rule": ("exhaustive: all histories of length <= 3 (quick) / 4 (thorough) over 50 operations {Curve::new, BorrowedCurve::new on 13 pooled control-point lists x 7 lengths (incl. zero, negative, below epsilon), "
                 "SliderPath::curve / curve_with_bufs / borrowed_curve, control_points_mut, expected_dist_mut, clear_curve} sharing one CurveBuffers, in the four modes; random "
                 "histories of 5-50 operations with random extra control-point lists. Oracle: after every computing step the result equals Curve::new with fresh buffers "
                 "bitwise (path and lengths); accessors show what was set. non-trivial = history of at least 2 operations; distinct by hash of the history"),
        "assumptions": COMMON_ASSUMPTIONS + ["'pure' is judged against the function itself evaluated with fresh buffers"],
        "quick": [leg("main", "rel", 16, 700, timeout=600, max_secs=150), leg("miri", "miri", 8, 4, timeout=900, max_secs=240)],
        "thorough": [leg("main", "rel", 16, 62500, timeout=3600, max_secs=900), leg("miri", "miri", 16, 40, timeout=3600, max_secs=900)],
        "min": {"operations": 200000},
    },
    "C19": {
        "level": "exploration",
        "rule": ("curves from the C16 generator (natural and adjusted, zero-length, duplicate vertices, 1-12 control points, all types and modes) x progress values {0, -0.0, -1, "
                 "-1e300, -inf, 1, 1+eps, 2, 1e300, +inf}, every vertex fraction lengths[i]/dist (strided beyond 300 vertices), 12 random pairs (4 wide, 8 close) and an "
                 "independent linear-scan interpolation. Relations: ends, clamping, progress_to_dist, arc-length bound between pairs, vertex at its cumulative length "
                 "(coincident lengths: any coincident vertex); BorrowedCurve answers identically. Positions are compared geometrically (1e-4 + 1e-6 scale). "
                 "non-trivial = path of at least 2 points; distinct by hash of the path"),
        "assumptions": COMMON_ASSUMPTIONS + ["NaN progress is outside the statement's domain"],
        "quick": [leg("main", "rel", 16, 8000, timeout=600, max_secs=150)],
        "thorough": [leg("main", "rel", 16, 6000000, timeout=3600, max_secs=900)],
        "min": {"c19_curves": 50000, "c19_vertex_probes": 1000000, "c19_pair_probes": 500000, "c19_zero_length_curves": 2000},
    },
    "C20": {
        "level": "exploration",
        "rule": ("exhaustive grid: span counts 1-6 x tick/length ratios {0, 1/7, 1/4, 1/3, 1/2, 1, 3/2, NaN, inf} x velocities {0, 0.1, 1, 5} x span durations {1, 36, 72, 1000} x "
                 "lengths {1, 100, 1000, 100001} x 3 start times, each with a junk-filled tick buffer and again after an abandoned iterator; random real-valued parameters in "
                 "playable ranges in histories of 2-20 iterators sharing one buffer (junk pre-fill, iterators dropped after k events). Oracle: collected stream == eager "
                 "reference list (kinds, span indices, times/progress to 1e-9 relative) + structural assertions (one head, per-span ticks then repeat, chronological, "
                 "identical tick set per span, 10 ms rule, zero tick distance => no ticks, last tick + tail). Streams with more than 1e5 expected events are skipped and counted. The encoder as a caller: sliders whose nodes get distinct volumes from "
                 "sample points at the reference stream's head/repeat/tail times must keep them over encode -> decode (the collected sample points sit at those times). "
                 "One evaluation = one parameter set; distinct by hash of the parameters"),
        "assumptions": COMMON_ASSUMPTIONS + ["negative or NaN length is outside the domain (length comes from Curve::dist() >= 0)"],
        "quick": [leg("main", "rel", 16, 6000, timeout=600, max_secs=150), leg("dbg", "dbg", 8, 1000, timeout=600, max_secs=150)],
        "thorough": [leg("main", "rel", 16, 6000000, timeout=3600, max_secs=900), leg("dbg", "dbg", 16, 20000, timeout=3600, max_secs=800)],
        "min": {"events_compared": 2000000, "streams_with_ticks": 50000, "abandoned_iterators": 10000, "encoder_caller_cases": 1000},
    },
}

MANIFEST_TEXT = {
    "C16": {
        "technique": "runtime monitoring: differential oracle natural-vs-adjusted curve with an independent cut/extend reference; structural invariants on cumulative lengths; exhaustive small integer grids + random lists",
        "level_text": "For each control-point list the natural and the adjusted curve are computed by the real code and related by an independent cut/extend; exact distance, monotone finite lengths and the two stated exceptions are asserted.",
        "level_note": "Exhaustive over the small grid (exhaustive: true), sampled beyond; float tolerances are stated in the rule.",
    },
    "C17": {
        "technique": "runtime monitoring: geometric oracle — two-sided distance between computed paths and independently evaluated exact curves with bounds derived from the approximation tolerances; recomposition oracle for segment joints",
        "level_text": "Every generated shape is compared with its exact curve in both directions against a derived bound; fallbacks and joints are checked structurally; the worst observed/bound ratio is reported in the evidence.",
        "level_note": "A distance bound, not a reimplementation: conforming but different flattenings pass by design. Arc/Catmull bounds are sharp, the Bezier bound is the provable (looser) one.",
    },
    "C18": {
        "technique": "runtime monitoring: history-based purity oracle (fresh-buffer recomputation after every step) over exhaustive short and random long API histories; borrowed-curve aliasing under Miri",
        "level_text": "All short histories over 50 operations sharing one buffer set are enumerated; after every step the produced curve must equal a fresh-buffer computation bitwise.",
        "level_note": "Exhaustive over short histories (exhaustive: true), sampled over long ones.",
    },
    "C19": {
        "technique": "runtime monitoring: relation oracle (ends, clamping, 1-Lipschitz in arc length, vertex hits) + independent linear-scan interpolation on generated curves",
        "level_text": "Each curve is probed at special, vertex and random progress values; every stated relation is asserted with a geometric tolerance.",
        "level_note": "Sampled over curves and progress values; exhaustive over the vertices of each curve up to 300.",
    },
    "C20": {
        "technique": "runtime monitoring: eager reference list vs lazy iterator over an exhaustive parameter grid and random histories sharing one tick buffer (junk pre-fill, abandoned iterators)",
        "level_text": "The full grid of span counts x tick ratios x velocities x durations x lengths is enumerated; random parameter histories exercise buffer reuse; the collected stream must equal the reference and satisfy structural assertions.",
        "level_note": "Exhaustive over the grid (exhaustive: true), sampled beyond.",
    },
    "C15": {
        "technique": "runtime monitoring: closed-form recomputation oracle over raw objects from the public per-line API + metamorphic time-shift relation",
        "level_text": "Each generated map is post-processed independently from its raw per-line objects and compared with the decoder; each map is re-generated with shifted times and must differ in times only.",
        "level_note": "Sampled over maps and shifts; float tolerance 1e-12 for closed forms, numerically ambiguous lookups are counted and skipped.",
    },
    "C14": {
        "technique": "runtime monitoring: lock-step reference parser on the public per-line API with a long-lived state (buffer reuse across lines); exhaustive type x sound bytes; slider lines under Miri",
        "level_text": "Every generated line is parsed by the real parser and by an independent reference in the same context; accept/reject and all projected fields must agree. All 65536 type/sound byte pairs are enumerated in three contexts.",
        "level_note": "Exhaustive over type x sound bytes for circles (exhaustive: true), sampled over the line grammar otherwise.",
    },
    "C12": {
        "technique": "runtime monitoring: reference-model oracle (legacy pending-group model with linear scans) + independent structural invariants over exhaustively enumerated short line sequences and random long ones",
        "level_text": "Short sequences over a small alphabet with many equal times are enumerated completely in all modes; long random sequences are sampled; every decoded list must equal the model and satisfy order/clamp invariants.",
        "level_note": "Exhaustive over the stated small world (exhaustive: true), sampled beyond.",
    },
    "C13": {
        "technique": "runtime monitoring: lock-step linear-scan reference of the public ControlPoints::add / *_point_at API after every operation; exhaustive short histories + random long ones",
        "level_text": "All add-histories up to a bounded length over 32 operations are enumerated; after each operation lists and lookups are compared with the reference.",
        "level_note": "Exhaustive over short histories (exhaustive: true), sampled over long ones.",
    },
    "C11": {
        "technique": "runtime monitoring: reference-model oracle (table-driven interpretation of records) over exhaustively enumerated key x value-class records, pairs, event triples and random sequences",
        "level_text": "The key x value-class matrix, same-key pairs, cross-key pairs of the sections with order rules and all event pairs/triples are enumerated completely; longer mixed sequences are sampled.",
        "level_note": "Exhaustive over the stated small worlds (exhaustive: true), sampled beyond. The reference is hand-written from the statement.",
    },
    "C06": {
        "technique": "runtime monitoring: delete-the-rejected-line differential, rejected lines taken from the implementation's own tracing event log and the public per-line parsers; state-boundary assertion after every Err; slider subset under Miri",
        "level_text": "Tens of thousands of rejected lines per run in all eight sections; each is removed and the full deep result compared; a rejected line that leaves any trace refutes the property.",
        "level_note": "Sampled over files and corruptions; rejection is decided by the real parsers, not by a model.",
    },
    "C02": {
        "technique": "runtime monitoring: round-trip differential oracle (field-wise key with exact float rendering) over generated and mutated maps; classifier-keyed known findings",
        "level_text": ("Tens of thousands (quick) to millions (thorough) of chronological inputs are decoded, encoded and decoded again, and every listed field is compared; "
                       "the relation is checked a second time on the encoder's own output. Differences matching a listed finding's classifier are reported as KNOWN-FINDING, any other difference as VIOLATION."),
        "level_note": "Sampled input space; the comparator's field list is the statement's list. Findings D11, D14, D15, D16 are classified, not hidden: their counts are in the evidence.",
    },
    "C03": {
        "technique": "runtime monitoring: metamorphic edit oracle — edited fields read back exactly, all other compared fields equal the unedited round trip",
        "level_text": "Random 1-4 field edits from representable-value generators on decoded maps; each edit must survive encode/decode and must not disturb any other compared field.",
        "level_note": "Sampled over maps x edits; generators define the representable domain (stated in the evidence assumptions).",
    },
    "C04": {
        "technique": "runtime monitoring: the implementation's own error event log (tracing feature) + public per-line parsers as acceptance oracles over every encoded line; Recorder trace for header order and record counts",
        "level_text": "Every line of every encoding produced from hostile and bundled inputs is replayed through the decoder under three independent observations (event log, public parse functions, dispatch trace + read-back counts).",
        "level_note": "Sampled over decoded maps; exhaustive over the lines of each encoding.",
    },
    "C08": {
        "technique": "runtime monitoring: differential oracle over reader delivery schedules (chunk lists, BufReader capacities, injected Interrupted), exhaustive over fixed chunk sizes and tiny BOM-like files",
        "level_text": ("Each input is decoded through ~100-150 different deliveries and every result must equal from_bytes; all fixed chunk sizes 1..64 and "
                       "BufReader capacities 1..16 are always covered, variable schedules and interrupt placements are sampled."),
        "level_note": "Sampled over inputs and variable schedules; exhaustive over fixed chunk sizes/capacities per input and over tiny BOM-like files.",
    },
    "C09": {
        "technique": "runtime monitoring with fault injection: failing readers/writers at enumerated byte offsets, marker-carrying errors, fired-fault counters",
        "level_text": ("Faults are enumerated over byte offsets of real files (all offsets of the small bundled files in thorough) for five error kinds on read and "
                       "error / zero-length / flush / short-write behaviours on write; each fired fault must surface as exactly the injected error."),
        "level_note": "Enumeration is complete per small bundled file in thorough, sampled for large and generated files and in quick.",
    },
    "C10": {
        "technique": "runtime monitoring: cross-encoding differential + reference-model oracle (std lossy conversion per line) over every Unicode scalar and random damage; invalid-byte subset under Miri and AddressSanitizer",
        "level_text": ("Each text is decoded in four encodings and must give identical dispatch traces and maps; every scalar value is pushed through every encoding "
                       "(exhaustive in thorough); damaged inputs must decode like std's lossy conversion applied per line and never error."),
        "level_note": "Exhaustive over single scalars, sampled over texts and damage placements. Trusted: std lossy conversions.",
    },
    "C05": {
        "technique": "runtime monitoring: trace-specification checking — Recorder (DecodeBeatmap implementor) records the real driver's line dispatch, compared with an independent framing model; exhaustive small worlds + random long files; metamorphic filler/CRLF relations",
        "level_text": ("All line-kind sequences up to a bounded length are enumerated (exhaustive: true) and long random ones sampled in all encodings; "
                       "for each the real dispatch trace must equal the model's and the Beatmap must equal the reference driver's."),
        "level_note": "Bounded-exhaustive over the alphabet, sampled beyond; the model is hand-written from the statement.",
    },
    "C01": {
        "technique": "runtime monitoring: hostile-input stress under panic capture, debug-assertions/overflow-checks build, AddressSanitizer, valgrind memcheck and Miri; process-death + progress-file witness; watchdog for non-termination",
        "level_text": ("Every generated input (noise, grammar, mutants, transcodings, every prefix of bundled files) is decoded by all nine "
                       "decoders and re-encoded under six build/tool flavours; a panic, abort, sanitizer report, in-memory Err, non-UTF-8 "
                       "output or non-terminating case refutes the property. Held = no such event on the executions listed in the evidence."),
        "level_note": "Coverage is the generated inputs only; sanitizer legs run smaller samples (Miri: tens to hundreds of small inputs). Trusted: rustc/std, Miri, ASan runtime, the harness.",
    },
    "C07": {
        "technique": "runtime monitoring: differential oracle between the full decoder and the eight specialised decoders on a hostile input stream",
        "level_text": ("For every generated input the eight specialised decoders are run next to Beatmap and every shared field is compared exactly. "
                       "A single differing field on any input refutes the property."),
        "level_note": "Projection tables come from the public struct definitions; inputs are those of the C01 stream plus the bundled files.",
    },
}
