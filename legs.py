"""Table of legs (build flavour x shards x cases per shard), minimum observations and
evidence texts per property. Kept apart from the driver so that budgets are in one place."""


def leg(name, flavour, shards, cases=None, timeout=900, max_secs=None, optional=False):
    return {"name": name, "flavour": flavour, "shards": shards, "cases": cases, "timeout": timeout,
            "max_secs": max_secs, "optional": optional}


COMMON_ASSUMPTIONS = [
    "the oracle observes only executions produced by this run's workloads; nothing is claimed about inputs not generated",
    "rustc/std and the harness' own reference code are trusted",
]

PROPS = {
    "C01": {
        "level": "exploration",
        "rule": ("inputs: uniform/structured noise, grammar-generated .osu text (hostile numerics, scrambled sections), "
                 "byte/line/field mutants and splices of the bundled maps, UTF-8+BOM/UTF-16LE/UTF-16BE transcodings with "
                 "damage (odd tails, lone surrogates, invalid bytes), every prefix of bundled maps in 4 encodings; each input "
                 "is decoded by all nine decoder types + from_str, the Beatmap is encoded twice and decoded again. "
                 "non-trivial = the Recorder trace of the input has at least one line dispatched to a section parser; "
                 "distinct = by FNV-64 of the input bytes, merged over all legs"),
        "assumptions": COMMON_ASSUMPTIONS + [
            "memory safety is judged by Miri (aliasing/validity), AddressSanitizer (heap/stack red zones) and a "
            "debug-assertions+overflow-checks build (unsafe preconditions, integer overflow) on the inputs those legs ran; "
            "a clean sanitizer run is not a proof of memory safety",
            "non-termination is judged by a per-worker watchdog followed by a solo re-run of the in-flight case",
            "encoding is skipped (and counted) for maps whose estimated slider-event count exceeds 2e6",
        ],
        "quick": [
            leg("main", "rel", 16, 9000, timeout=600, max_secs=150),
            leg("tracing", "reltr", 8, 4000, timeout=600, max_secs=150),
            leg("dbg", "dbg", 8, 2500, timeout=600, max_secs=150),
            leg("asan", "asan", 8, 1500, timeout=600, max_secs=150, optional=True),
            leg("miri", "miri", 16, 5, timeout=900, max_secs=240),
        ],
        "thorough": [
            leg("main", "rel", 16, 250000, timeout=3600, max_secs=1500),
            leg("tracing", "reltr", 16, 60000, timeout=3600, max_secs=1500),
            leg("dbg", "dbg", 16, 40000, timeout=3600, max_secs=1500),
            leg("asan", "asan", 16, 30000, timeout=3600, max_secs=1500, optional=True),
            leg("miri", "miri", 16, 100, timeout=5400, max_secs=2400),
        ],
        "min": {"decodes_ok": 1000, "encodes_ok": 500, "objects_slider": 500, "class_noise": 50,
                "class_bundled-mutant": 50, "enc_utf16le-bom": 50, "enc_utf16be-bom": 50, "enc_invalid-utf8": 20},
    },
    "C07": {
        "level": "exploration",
        "rule": ("the C01 hostile input stream (well-formed, hostile, mutated, all encodings) plus every bundled file whole; "
                 "each input is decoded by Beatmap and by the eight specialised decoders and every shared field is compared "
                 "through its exact Debug rendering. non-trivial = the Beatmap differs from Beatmap::default(); distinct by "
                 "FNV-64 of the input bytes"),
        "assumptions": COMMON_ASSUMPTIONS + ["the projection tables (which fields a decoder shares with Beatmap) are read off the public struct definitions"],
        "quick": [leg("main", "rel", 16, 8000, timeout=600, max_secs=150)],
        "thorough": [leg("main", "rel", 16, 250000, timeout=3600, max_secs=1500)],
        "min": {"decoder_comparisons": 8000, "inputs_with_objects": 500, "inputs_with_timing_points": 500,
                "inputs_with_colours": 100, "inputs_with_events": 100},
    },
}

MANIFEST_TEXT = {
    "C01": {
        "technique": "runtime monitoring: hostile-input stress under panic capture, debug-assertions/overflow-checks build, AddressSanitizer and Miri; process-death + progress-file witness; watchdog for non-termination",
        "level_text": ("Every generated input (noise, grammar, mutants, transcodings, every prefix of bundled files) is decoded by all nine "
                       "decoders and re-encoded under five build flavours; a panic, abort, sanitizer report, in-memory Err, non-UTF-8 "
                       "output or non-terminating case refutes the property. Held = no such event on the executions listed in the evidence."),
        "level_note": "Coverage is the generated inputs only; sanitizer legs run smaller samples (Miri: tens to hundreds of small inputs). Trusted: rustc/std, Miri, ASan runtime, the harness.",
    },
    "C07": {
        "technique": "runtime monitoring: differential oracle between the full decoder and the eight specialised decoders on a hostile input stream",
        "level_text": ("For every generated input the eight specialised decoders are run next to Beatmap and every shared field is compared exactly. "
                       "A single differing field on any input refutes the property."),
        "level_note": "Projection tables come from the public struct definitions; inputs are those of the C01 stream plus the bundled files.",
    },
}
